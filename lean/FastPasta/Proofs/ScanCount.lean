/-
  Proofs.ScanCount — the scanner's own counters (RDHs visited, RDHs matching the filter, payload
  bytes, link and FEE-ID lists) on a well-framed input, as closed forms over the packet list.
  Companion of the C03 loop specifications (same induction, other components of the state);
  used by C14.
-/
import FastPasta.Props.C03
namespace FastPasta
namespace C03

/-- first-occurrence accumulation used for the link and FEE-ID lists -/
def addNew (l : List Nat) (x : Nat) : List Nat := if l.contains x then l else l ++ [x]

def linksFrom (l : List Nat) (ps : List RawPkt) : List Nat := (ps.map (·.rdh.linkId)).foldl addNew l
def feesFrom (l : List Nat) (ps : List RawPkt) : List Nat := (ps.map (·.rdh.feeId)).foldl addNew l

theorem seeRdh_links (s : ScanSt) (r : Rdh) : (s.seeRdh r).links = addNew s.links r.linkId := rfl
theorem seeRdh_fees (s : ScanSt) (r : Rdh) : (s.seeRdh r).fees = addNew s.fees r.feeId := rfl

/-- the counters a scanner state carries, relative to the packets still to be visited -/
structure CountRel (s r : ScanSt) (ps post : List RawPkt) (dFiltered dPayload : Nat) : Prop where
  seen : r.seen + post.length = s.seen + ps.length
  filtered : r.filtered = s.filtered + dFiltered
  payload : r.payload = s.payload + dPayload
  links : linksFrom r.links post = linksFrom s.links ps
  fees : feesFrom r.fees post = feesFrom s.fees ps

theorem filterLoop_counts (src : Src) (t : Filter) (ps : List RawPkt) (hwf : ∀ p ∈ ps, WF p)
    (tail : Bytes) (htail : tail.length < 64) :
    ∀ (s : ScanSt) (acc : List InMsg), s.rest = bytesOf ps ++ tail →
      match firstMatch (some t) s.pos ps with
      | none => CountRel s (filterLoop src t s acc).1 ps [] 0 0
      | some (_, _, post) => CountRel s (filterLoop src t s acc).1 ps post 1 0 := by
  induction ps with
  | nil =>
    intro s acc hs
    simp only [bytesOf, List.flatMap_nil, List.nil_append] at hs
    rw [filterLoop]
    simp only [firstMatch, hs, htail, ↓reduceDIte]
    exact ⟨rfl, rfl, rfl, rfl, rfl⟩
  | cons p ps ih =>
    intro s acc hs
    have hp := hwf p (by simp)
    rw [bytesOf_cons, List.append_assoc, List.append_assoc] at hs
    obtain ⟨ht, hd, hl⟩ := take_hdr p hp (p.payload ++ (bytesOf ps ++ tail))
    rw [filterLoop]
    simp only [hs, hl, ↓reduceDIte, ht, hd]
    have hok := offsetOk_of_wf p hp
    simp only [RawPkt.rdh] at hok
    simp only [hok, Bool.not_true, Bool.false_eq_true, ↓reduceIte]
    by_cases hm : t.matches (decodeRdh p.hdr) = true
    · simp only [firstMatch, filterMatches, RawPkt.rdh, hm, ↓reduceIte]
      refine ⟨?_, rfl, rfl, ?_, ?_⟩
      · simp only [ScanSt.seeRdh, List.length_cons]; omega
      · simp only [linksFrom, List.map_cons, List.foldl_cons, RawPkt.rdh]; rfl
      · simp only [feesFrom, List.map_cons, List.foldl_cons, RawPkt.rdh]; rfl
    · have hoff : (decodeRdh p.hdr).offsetNext = 64 + p.payload.length := hp.off
      have hseek : seekOk src (ScanSt.seeRdh { s with rest := p.payload ++ (bytesOf ps ++ tail) } (decodeRdh p.hdr))
          (decodeRdh p.hdr).offsetNext = true := by
        cases src <;> simp [seekOk, ScanSt.seeRdh, hoff]
      simp only [hm, Bool.false_eq_true, ↓reduceIte, hseek, Bool.not_true]
      have hrest : (seekNext (ScanSt.seeRdh { s with rest := p.payload ++ (bytesOf ps ++ tail) } (decodeRdh p.hdr))
          (decodeRdh p.hdr).offsetNext).rest = bytesOf ps ++ tail := by
        simp [seekNext, ScanSt.seeRdh, hoff]
      have hpos : (seekNext (ScanSt.seeRdh { s with rest := p.payload ++ (bytesOf ps ++ tail) } (decodeRdh p.hdr))
          (decodeRdh p.hdr).offsetNext).pos = s.pos + p.size := by
        simp [seekNext, ScanSt.seeRdh, hoff, RawPkt.size]
      have := ih (fun q hq => hwf q (by simp [hq])) _ (acc ++ ScanSt.seeMsgs { s with rest := p.payload ++ (bytesOf ps ++ tail) } (decodeRdh p.hdr)) hrest
      rw [hpos] at this
      simp only [firstMatch, filterMatches, RawPkt.rdh, hm, Bool.false_eq_true, ↓reduceIte]
      generalize filterLoop src t _ _ = res at this
      generalize firstMatch (some t) (s.pos + p.size) ps = fm at this
      cases fm with
      | none =>
        simp only at this ⊢
        obtain ⟨h1, h2, h3, h4, h5⟩ := this
        refine ⟨?_, h2, h3, ?_, ?_⟩
        · simp only [seekNext, ScanSt.seeRdh, List.length_cons] at h1 ⊢; omega
        · rw [h4]; simp only [linksFrom, List.map_cons, List.foldl_cons, RawPkt.rdh]; rfl
        · rw [h5]; simp only [feesFrom, List.map_cons, List.foldl_cons, RawPkt.rdh]; rfl
      | some x =>
        obtain ⟨o', q, post⟩ := x
        simp only at this ⊢
        obtain ⟨h1, h2, h3, h4, h5⟩ := this
        refine ⟨?_, h2, h3, ?_, ?_⟩
        · simp only [seekNext, ScanSt.seeRdh, List.length_cons] at h1 ⊢; omega
        · rw [h4]; simp only [linksFrom, List.map_cons, List.foldl_cons, RawPkt.rdh]; rfl
        · rw [h5]; simp only [feesFrom, List.map_cons, List.foldl_cons, RawPkt.rdh]; rfl

theorem firstMatch_mem (f : Option Filter) : ∀ (l : List RawPkt) o o' p post,
    firstMatch f o l = some (o', p, post) → p ∈ l ∧ ∀ q ∈ post, q ∈ l := by
  intro l
  induction l with
  | nil => intro o o' p post h; simp [firstMatch] at h
  | cons a as ih =>
    intro o o' p post h
    simp only [firstMatch] at h
    split at h
    · simp only [Option.some.injEq, Prod.mk.injEq] at h
      obtain ⟨_, rfl, rfl⟩ := h
      exact ⟨by simp, fun q hq => List.mem_cons_of_mem _ hq⟩
    · have := ih _ o' p post h
      exact ⟨List.mem_cons_of_mem _ this.1, fun q hq => List.mem_cons_of_mem _ (this.2 q hq)⟩

theorem loadRdh_counts (cfg : ScanCfg) (ps : List RawPkt) (hwf : ∀ p ∈ ps, WF p)
    (tail : Bytes) (htail : tail.length < 64)
    (s : ScanSt) (hs : s.rest = bytesOf ps ++ tail) :
    match firstMatch cfg.filter s.pos ps with
    | none => CountRel s (loadRdh cfg s).1 ps [] 0 0
    | some (_, p, post) =>
      CountRel s (loadRdh cfg s).1 ps post (if cfg.filter.isSome then 1 else 0) p.payload.length := by
  cases ps with
  | nil =>
    simp only [bytesOf, List.flatMap_nil, List.nil_append] at hs
    simp only [firstMatch, loadRdh, hs, htail, ↓reduceIte]
    exact ⟨rfl, rfl, rfl, rfl, rfl⟩
  | cons p ps =>
    have hp := hwf p (by simp)
    rw [bytesOf_cons, List.append_assoc, List.append_assoc] at hs
    obtain ⟨ht, hd, hl⟩ := take_hdr p hp (p.payload ++ (bytesOf ps ++ tail))
    have hok := offsetOk_of_wf p hp
    simp only [RawPkt.rdh] at hok
    have hoff : (decodeRdh p.hdr).offsetNext = 64 + p.payload.length := hp.off
    have hsz := payloadSize_eq p hp
    simp only [RawPkt.rdh] at hsz
    unfold loadRdh
    simp only [hs, hl, ↓reduceIte, ht, hd, hok, Bool.not_true, Bool.false_eq_true]
    cases hf : cfg.filter with
    | none =>
      simp only [firstMatch, filterMatches, ↓reduceIte, Option.isSome_none, Bool.false_eq_true]
      refine ⟨?_, rfl, ?_, ?_, ?_⟩
      · simp only [ScanSt.seeRdh, List.length_cons]; omega
      · simp only [ScanSt.seeRdh, hsz]
      · simp only [linksFrom, List.map_cons, List.foldl_cons, RawPkt.rdh]; rfl
      · simp only [feesFrom, List.map_cons, List.foldl_cons, RawPkt.rdh]; rfl
    | some t =>
      by_cases hm : t.matches (decodeRdh p.hdr) = true
      · simp only [firstMatch, filterMatches, RawPkt.rdh, hm, ↓reduceIte, Option.isSome_some]
        refine ⟨?_, rfl, ?_, ?_, ?_⟩
        · simp only [ScanSt.seeRdh, List.length_cons]; omega
        · simp only [ScanSt.seeRdh, hsz]
        · simp only [linksFrom, List.map_cons, List.foldl_cons, RawPkt.rdh]; rfl
        · simp only [feesFrom, List.map_cons, List.foldl_cons, RawPkt.rdh]; rfl
      · have hseek : seekOk cfg.src (ScanSt.seeRdh { s with rest := p.payload ++ (bytesOf ps ++ tail) } (decodeRdh p.hdr))
            (decodeRdh p.hdr).offsetNext = true := by
          cases cfg.src <;> simp [seekOk, ScanSt.seeRdh, hoff]
        have hrest : (seekNext (ScanSt.seeRdh { s with rest := p.payload ++ (bytesOf ps ++ tail) } (decodeRdh p.hdr))
            (decodeRdh p.hdr).offsetNext).rest = bytesOf ps ++ tail := by
          simp [seekNext, ScanSt.seeRdh, hoff]
        have hpos : (seekNext (ScanSt.seeRdh { s with rest := p.payload ++ (bytesOf ps ++ tail) } (decodeRdh p.hdr))
            (decodeRdh p.hdr).offsetNext).pos = s.pos + p.size := by
          simp [seekNext, ScanSt.seeRdh, hoff, RawPkt.size]
        have hwf' : ∀ q ∈ ps, WF q := fun q hq => hwf q (by simp [hq])
        have hfl := filterLoop_spec cfg.src t ps hwf' tail htail _ [] hrest
        have hfc := filterLoop_counts cfg.src t ps hwf' tail htail _ [] hrest
        rw [hpos] at hfl hfc
        simp only [hm, Bool.false_eq_true, ↓reduceIte, hseek, Bool.not_true]
        simp only [firstMatch, filterMatches, RawPkt.rdh, hm, Bool.false_eq_true, ↓reduceIte, Option.isSome_some]
        generalize hfm : firstMatch (some t) (s.pos + p.size) ps = fm at hfl hfc
        cases fm with
        | none =>
          simp only at hfl hfc ⊢
          generalize filterLoop cfg.src t _ [] = r at hfl hfc
          obtain ⟨s3, m2, res⟩ := r
          simp only at hfl hfc
          subst hfl
          simp only
          obtain ⟨h1, h2, h3, h4, h5⟩ := hfc
          refine ⟨?_, h2, h3, ?_, ?_⟩
          · simp only [seekNext, ScanSt.seeRdh, List.length_cons] at h1 ⊢; omega
          · rw [h4]; simp only [linksFrom, List.map_cons, List.foldl_cons, RawPkt.rdh]; rfl
          · rw [h5]; simp only [feesFrom, List.map_cons, List.foldl_cons, RawPkt.rdh]; rfl
        | some x =>
          obtain ⟨o', q, post⟩ := x
          simp only at hfl hfc ⊢
          have hq : WF q := hwf' q (firstMatch_mem _ ps _ _ _ _ hfm).1
          have hqsz := payloadSize_eq q hq
          generalize filterLoop cfg.src t _ [] = r at hfl hfc
          obtain ⟨s3, m2, res⟩ := r
          simp only at hfl hfc
          obtain ⟨hr1, -, -⟩ := hfl
          subst hr1
          simp only
          obtain ⟨h1, h2, h3, h4, h5⟩ := hfc
          refine ⟨?_, h2, ?_, ?_, ?_⟩
          · simp only [seekNext, ScanSt.seeRdh, List.length_cons] at h1 ⊢; omega
          · simp only [h3, hqsz, seekNext, ScanSt.seeRdh]; omega
          · rw [h4]; simp only [linksFrom, List.map_cons, List.foldl_cons, RawPkt.rdh]; rfl
          · rw [h5]; simp only [feesFrom, List.map_cons, List.foldl_cons, RawPkt.rdh]; rfl

theorem loadCdp_counters (cfg : ScanCfg) (s : ScanSt) :
    (loadCdp cfg s).1.seen = (loadRdh cfg s).1.seen ∧ (loadCdp cfg s).1.filtered = (loadRdh cfg s).1.filtered ∧
    (loadCdp cfg s).1.payload = (loadRdh cfg s).1.payload ∧ (loadCdp cfg s).1.links = (loadRdh cfg s).1.links ∧
    (loadCdp cfg s).1.fees = (loadRdh cfg s).1.fees := by
  unfold loadCdp
  generalize loadRdh cfg s = r
  obtain ⟨s1, m, res⟩ := r
  cases res with
  | error e => exact ⟨rfl, rfl, rfl, rfl, rfl⟩
  | ok r =>
    simp only
    split
    · exact ⟨rfl, rfl, rfl, rfl, rfl⟩
    · split <;> exact ⟨rfl, rfl, rfl, rfl, rfl⟩

theorem loadCdp_counts (cfg : ScanCfg) (ps : List RawPkt) (hwf : ∀ p ∈ ps, WF p)
    (tail : Bytes) (htail : tail.length < 64)
    (s : ScanSt) (hs : s.rest = bytesOf ps ++ tail) :
    match firstMatch cfg.filter s.pos ps with
    | none => CountRel s (loadCdp cfg s).1 ps [] 0 0
    | some (_, p, post) =>
      CountRel s (loadCdp cfg s).1 ps post (if cfg.filter.isSome then 1 else 0) p.payload.length := by
  have h := loadRdh_counts cfg ps hwf tail htail s hs
  obtain ⟨c1, c2, c3, c4, c5⟩ := loadCdp_counters cfg s
  cases hfm : firstMatch cfg.filter s.pos ps with
  | none =>
    rw [hfm] at h
    obtain ⟨h1, h2, h3, h4, h5⟩ := h
    exact ⟨by rw [c1]; exact h1, by rw [c2]; exact h2, by rw [c3]; exact h3, by rw [c4]; exact h4, by rw [c5]; exact h5⟩
  | some x =>
    obtain ⟨o', p, post⟩ := x
    rw [hfm] at h
    obtain ⟨h1, h2, h3, h4, h5⟩ := h
    exact ⟨by rw [c1]; exact h1, by rw [c2]; exact h2, by rw [c3]; exact h3, by rw [c4]; exact h4, by rw [c5]; exact h5⟩

/-- packets matching the filter -/
def matched (f : Option Filter) (ps : List RawPkt) : List RawPkt := ps.filter (fun p => filterMatches f p.rdh)

theorem matched_unfold (f : Option Filter) (o : Nat) (ps : List RawPkt) :
    matched f ps = match firstMatch f o ps with
      | none => []
      | some (_, p, post) => p :: matched f post := by
  induction ps generalizing o with
  | nil => simp [matched, firstMatch]
  | cons p ps ih =>
    by_cases hm : filterMatches f p.rdh = true
    · simp [matched, firstMatch, hm]
    · have := ih (o + p.size)
      simp only [matched] at this
      simp [matched, firstMatch, hm, this]

def payloadSum (ps : List RawPkt) : Nat := (ps.map (·.payload.length)).sum

/-- the counters after the whole scan loop, from any reached state -/
theorem scanLoop_counts (cfg : ScanCfg) (tail : Bytes) (htail : tail.length < 64) :
    ∀ (n : Nat) (ps : List RawPkt), ps.length ≤ n →
    (∀ p ∈ ps, WF p) → ∀ (s : ScanSt) (pk : List Packet) (ms : List InMsg), s.rest = bytesOf ps ++ tail →
      let fin := (scanLoop cfg s pk ms).final
      fin.seen = s.seen + ps.length ∧
      fin.filtered = s.filtered + (if cfg.filter.isSome then (matched cfg.filter ps).length else 0) ∧
      fin.payload = s.payload + payloadSum (matched cfg.filter ps) ∧
      fin.links = linksFrom s.links ps ∧ fin.fees = feesFrom s.fees ps := by
  intro n
  induction n with
  | zero =>
    intro ps hlen hwf s pk ms hs
    have : ps = [] := List.eq_nil_of_length_eq_zero (by omega)
    subst this
    have h := loadCdp_spec cfg [] hwf tail htail s hs
    have hc := loadCdp_counts cfg [] hwf tail htail s hs
    simp only [firstMatch] at h hc
    obtain ⟨e, he, rfl⟩ := h
    rw [scanLoop]
    generalize hl : loadCdp cfg s = r at he hc
    obtain ⟨s1, m, res⟩ := r
    simp only at he hc
    subst he
    obtain ⟨h1, h2, h3, h4, h5⟩ := hc
    simp only [List.length_nil, Nat.add_zero] at h1
    simp only [matched, List.filter_nil, List.length_nil, ite_self, Nat.add_zero, payloadSum, List.map_nil, List.sum_nil]
    exact ⟨h1, h2, h3, h4, h5⟩
  | succ n ih =>
    intro ps hlen hwf s pk ms hs
    have h := loadCdp_spec cfg ps hwf tail htail s hs
    have hc := loadCdp_counts cfg ps hwf tail htail s hs
    rw [matched_unfold cfg.filter s.pos ps]
    generalize hfm : firstMatch cfg.filter s.pos ps = fm at h hc
    rw [scanLoop]
    generalize hl : loadCdp cfg s = r at h hc
    obtain ⟨s1, m, res⟩ := r
    cases fm with
    | none =>
      simp only at h hc
      obtain ⟨e, he, rfl⟩ := h
      subst he
      obtain ⟨h1, h2, h3, h4, h5⟩ := hc
      simp only [List.length_nil, Nat.add_zero] at h1
      simp only [List.length_nil, ite_self, Nat.add_zero, payloadSum, List.map_nil, List.sum_nil]
      exact ⟨h1, h2, h3, h4, h5⟩
    | some x =>
      obtain ⟨o', p, post⟩ := x
      simp only at h hc
      obtain ⟨h1, h2, h3⟩ := h
      subst h1
      have hlt := firstMatch_bytes_len cfg.filter ps hwf s.pos o' p post hfm
      have hguard : s1.rest.length < s.rest.length := by
        rw [h2, hs]; simp only [List.length_append]; omega
      simp only [hguard, ↓reduceIte]
      have hpl := firstMatch_post_len cfg.filter s.pos ps o' p post hfm
      have hwf' : ∀ q ∈ post, WF q := fun q hq => hwf q ((firstMatch_mem _ ps _ _ _ _ hfm).2 q hq)
      have := ih post (by omega) hwf' s1 (pk ++ [mkPacket cfg.skipPayload (o', p)]) (ms ++ m) h2
      obtain ⟨c1, c2, c3, c4, c5⟩ := hc
      obtain ⟨i1, i2, i3, i4, i5⟩ := this
      refine ⟨by omega, ?_, ?_, by rw [i4, c4], by rw [i5, c5]⟩
      · rw [i2, c2]; simp only [List.length_cons]; split <;> omega
      · rw [i3, c3]; simp only [payloadSum, List.map_cons, List.sum_cons]; omega

/-- a scanner message that is not one of the three flushed counters -/
def _root_.FastPasta.InMsg.plain : InMsg → Bool
  | .rdhSeen _ | .rdhFiltered _ | .payloadSize _ => false
  | _ => true

theorem seeMsgs_plain (s : ScanSt) (r : Rdh) : ∀ m ∈ s.seeMsgs r, m.plain = true := by
  intro m hm
  simp only [ScanSt.seeMsgs, List.mem_append] at hm
  rcases hm with hm | hm <;> (split at hm <;> simp at hm; subst hm; rfl)

theorem filterLoop_plain (src : Src) (t : Filter) (s : ScanSt) (acc : List InMsg)
    (hacc : ∀ m ∈ acc, m.plain = true) : ∀ m ∈ (filterLoop src t s acc).2.1, m.plain = true := by
  fun_induction filterLoop src t s acc with
  | case1 s acc h => exact hacc
  | case2 s acc h r s1 hoff =>
    intro m hm
    simp only [List.mem_append, List.mem_singleton] at hm
    rcases hm with hm | rfl
    · exact hacc m hm
    · rfl
  | case3 s acc h r s1 hoff s2 ms hmatch =>
    intro m hm
    simp only [List.mem_append] at hm
    rcases hm with hm | hm
    · exact hacc m hm
    · exact seeMsgs_plain _ _ m hm
  | case4 s acc h r s1 hoff s2 ms hmatch s3 hseek =>
    intro m hm
    simp only [List.mem_append] at hm
    rcases hm with hm | hm
    · exact hacc m hm
    · exact seeMsgs_plain _ _ m hm
  | case5 s acc h r s1 hoff s2 ms hmatch s3 hseek ih =>
    apply ih
    intro m hm
    simp only [List.mem_append] at hm
    rcases hm with hm | hm
    · exact hacc m hm
    · exact seeMsgs_plain _ _ m hm

def AllPlain (l : List InMsg) : Prop := ∀ m ∈ l, m.plain = true
theorem AllPlain.nil : AllPlain [] := by intro m hm; simp at hm
theorem AllPlain.append {a b : List InMsg} (ha : AllPlain a) (hb : AllPlain b) : AllPlain (a ++ b) := by
  intro m hm
  simp only [List.mem_append] at hm
  rcases hm with hm | hm
  · exact ha m hm
  · exact hb m hm

theorem loadRdh_plain (cfg : ScanCfg) (s : ScanSt) : AllPlain (loadRdh cfg s).2.1 := by
  unfold loadRdh
  split
  · exact AllPlain.nil
  · have hm0 : AllPlain (if s.pos == 0 then [InMsg.runTrigger (decodeRdh (s.rest.take 64)).triggerType,
        .dataFormat (decodeRdh (s.rest.take 64)).dataFormat, .systemId (decodeRdh (s.rest.take 64)).systemId] else []) := by
      intro m hm
      split at hm
      · simp only [List.mem_cons, List.not_mem_nil, or_false] at hm
        rcases hm with rfl | rfl | rfl <;> rfl
      · simp at hm
    have hm1 : AllPlain (ScanSt.seeMsgs { s with rest := s.rest.drop 64 } (decodeRdh (s.rest.take 64))) := seeMsgs_plain _ _
    simp only
    split
    · refine (hm0.append hm1).append ?_
      intro m hm; simp only [List.mem_singleton] at hm; subst hm; rfl
    · cases hf : cfg.filter with
      | none => simp only; exact (hm0.append hm1).append AllPlain.nil
      | some t =>
        by_cases hmt : t.matches (decodeRdh (s.rest.take 64)) = true
        · simp only [hmt, ↓reduceIte]; exact (hm0.append hm1).append AllPlain.nil
        · by_cases hsk : seekOk cfg.src (ScanSt.seeRdh { s with rest := s.rest.drop 64 } (decodeRdh (s.rest.take 64)))
              (decodeRdh (s.rest.take 64)).offsetNext = true
          · have := filterLoop_plain cfg.src t (seekNext (ScanSt.seeRdh { s with rest := s.rest.drop 64 } (decodeRdh (s.rest.take 64)))
              (decodeRdh (s.rest.take 64)).offsetNext) [] AllPlain.nil
            simp only [hmt, hsk, Bool.false_eq_true, ↓reduceIte, Bool.not_true]
            generalize filterLoop cfg.src t _ [] = x at this
            obtain ⟨x1, x2, x3⟩ := x
            cases x3 <;> exact (hm0.append hm1).append this
          · simp only [hmt, hsk, Bool.false_eq_true, ↓reduceIte, Bool.not_false]
            exact (hm0.append hm1).append AllPlain.nil

theorem loadCdp_plain (cfg : ScanCfg) (s : ScanSt) : AllPlain (loadCdp cfg s).2.1 := by
  have h := loadRdh_plain cfg s
  unfold loadCdp
  generalize loadRdh cfg s = r at h
  obtain ⟨s1, m, res⟩ := r
  cases res with
  | error e => exact h
  | ok r =>
    simp only
    split
    · refine AllPlain.append h ?_
      split
      · exact AllPlain.nil
      · intro m hm; simp only [List.mem_singleton] at hm; subst hm; rfl
    · split
      · refine AllPlain.append h ?_
        intro m hm; simp only [List.mem_singleton] at hm; subst hm; rfl
      · exact h

theorem scanLoop_plain (cfg : ScanCfg) (s : ScanSt) (pk : List Packet) (ms : List InMsg) (hms : AllPlain ms) :
    AllPlain (scanLoop cfg s pk ms).msgs := by
  fun_induction scanLoop cfg s pk ms with
  | case1 s pk ms s1 m e h =>
    have := loadCdp_plain cfg s; rw [h] at this; exact AllPlain.append hms this
  | case2 s pk ms s1 m p h hg ih =>
    have := loadCdp_plain cfg s; rw [h] at this; exact ih (AllPlain.append hms this)
  | case3 s pk ms s1 m p h hg =>
    have := loadCdp_plain cfg s; rw [h] at this; exact AllPlain.append hms this

/-! ### link / FEE-ID messages: the scanner announces exactly the ids it appends to its lists -/

def linkOf : InMsg → Option Nat | .link l => some l | _ => none
def feeOf : InMsg → Option Nat | .fee f => some f | _ => none

/-- `Announced l0 ms s`: the scanner's lists are what it started with plus what it announced -/
structure Announced (l0 f0 : List Nat) (ms : List InMsg) (s : ScanSt) : Prop where
  links : l0 ++ ms.filterMap linkOf = s.links
  fees : f0 ++ ms.filterMap feeOf = s.fees

theorem Announced.see {l0 f0 ms} {s : ScanSt} (h : Announced l0 f0 ms s) (r : Rdh) :
    Announced l0 f0 (ms ++ s.seeMsgs r) (s.seeRdh r) := by
  constructor
  · simp only [List.filterMap_append, ← List.append_assoc, h.links, ScanSt.seeRdh, ScanSt.seeMsgs]
    by_cases hl : r.linkId ∈ s.links <;> by_cases hf : r.feeId ∈ s.fees <;>
      simp [hl, hf, linkOf]
  · simp only [List.filterMap_append, ← List.append_assoc, h.fees, ScanSt.seeRdh, ScanSt.seeMsgs]
    by_cases hl : r.linkId ∈ s.links <;> by_cases hf : r.feeId ∈ s.fees <;>
      simp [hl, hf, feeOf]

theorem Announced.same {l0 f0 ms ms'} {s s' : ScanSt} (h : Announced l0 f0 ms s)
    (hl : s'.links = s.links) (hf : s'.fees = s.fees)
    (hml : ms'.filterMap linkOf = ms.filterMap linkOf) (hmf : ms'.filterMap feeOf = ms.filterMap feeOf) :
    Announced l0 f0 ms' s' := ⟨by rw [hml, hl]; exact h.links, by rw [hmf, hf]; exact h.fees⟩

theorem filterLoop_announced (src : Src) (t : Filter) (s : ScanSt) (acc : List InMsg) (l0 f0 : List Nat)
    (h : Announced l0 f0 acc s) : Announced l0 f0 (filterLoop src t s acc).2.1 (filterLoop src t s acc).1 := by
  fun_induction filterLoop src t s acc with
  | case1 s acc hlt => exact h.same rfl rfl rfl rfl
  | case2 s acc hlt r s1 hoff =>
    exact h.same rfl rfl (by simp [List.filterMap_append, linkOf]) (by simp [List.filterMap_append, feeOf])
  | case3 s acc hlt r s1 hoff s2 ms hmatch =>
    have h1 : Announced l0 f0 acc s1 := h.same rfl rfl rfl rfl
    exact (h1.see r).same rfl rfl rfl rfl
  | case4 s acc hlt r s1 hoff s2 ms hmatch s3 hseek =>
    have h1 : Announced l0 f0 acc s1 := h.same rfl rfl rfl rfl
    exact (h1.see r).same rfl rfl rfl rfl
  | case5 s acc hlt r s1 hoff s2 ms hmatch s3 hseek ih =>
    have h1 : Announced l0 f0 acc s1 := h.same rfl rfl rfl rfl
    exact ih ((h1.see r).same rfl rfl rfl rfl)

theorem Announced.refl (s : ScanSt) : Announced s.links s.fees [] s := ⟨by simp, by simp⟩

theorem Announced.trans {l0 f0 pre new} {s s' : ScanSt} (h : Announced l0 f0 pre s)
    (h' : Announced s.links s.fees new s') : Announced l0 f0 (pre ++ new) s' :=
  ⟨by rw [List.filterMap_append, ← List.append_assoc, h.links]; exact h'.links,
   by rw [List.filterMap_append, ← List.append_assoc, h.fees]; exact h'.fees⟩

theorem Announced.skip {l0 f0 ms} {s : ScanSt} (m0 : List InMsg)
    (h0l : m0.filterMap linkOf = []) (h0f : m0.filterMap feeOf = []) (h : Announced l0 f0 ms s) :
    Announced l0 f0 (m0 ++ ms) s :=
  ⟨by rw [List.filterMap_append, h0l, List.nil_append]; exact h.links,
   by rw [List.filterMap_append, h0f, List.nil_append]; exact h.fees⟩

theorem Announced.post {l0 f0 ms} {s : ScanSt} (m1 : List InMsg)
    (h1l : m1.filterMap linkOf = []) (h1f : m1.filterMap feeOf = []) (h : Announced l0 f0 ms s) :
    Announced l0 f0 (ms ++ m1) s :=
  ⟨by rw [List.filterMap_append, h1l, List.append_nil]; exact h.links,
   by rw [List.filterMap_append, h1f, List.append_nil]; exact h.fees⟩

theorem loadRdh_announced (cfg : ScanCfg) (s : ScanSt) :
    Announced s.links s.fees (loadRdh cfg s).2.1 (loadRdh cfg s).1 := by
  unfold loadRdh
  split
  · exact (Announced.refl s).same rfl rfl rfl rfl
  · have hm0l : (if s.pos == 0 then [InMsg.runTrigger (decodeRdh (s.rest.take 64)).triggerType,
        .dataFormat (decodeRdh (s.rest.take 64)).dataFormat, .systemId (decodeRdh (s.rest.take 64)).systemId] else []).filterMap linkOf = [] := by
      split <;> simp [linkOf]
    have hm0f : (if s.pos == 0 then [InMsg.runTrigger (decodeRdh (s.rest.take 64)).triggerType,
        .dataFormat (decodeRdh (s.rest.take 64)).dataFormat, .systemId (decodeRdh (s.rest.take 64)).systemId] else []).filterMap feeOf = [] := by
      split <;> simp [feeOf]
    have h1 : Announced s.links s.fees [] ({ s with rest := s.rest.drop 64 } : ScanSt) := (Announced.refl s).same rfl rfl rfl rfl
    have h2 := (h1.see (decodeRdh (s.rest.take 64))).skip _ hm0l hm0f
    simp only [List.nil_append, ← List.append_assoc] at h2
    simp only
    split
    · exact h2.post _ (by simp [linkOf]) (by simp [feeOf])
    · cases hf : cfg.filter with
      | none => simp only; exact (h2.post [] rfl rfl).same rfl rfl rfl rfl
      | some t =>
        by_cases hmt : t.matches (decodeRdh (s.rest.take 64)) = true
        · simp only [hmt, ↓reduceIte]; exact (h2.post [] rfl rfl).same rfl rfl rfl rfl
        · by_cases hsk : seekOk cfg.src (ScanSt.seeRdh { s with rest := s.rest.drop 64 } (decodeRdh (s.rest.take 64)))
              (decodeRdh (s.rest.take 64)).offsetNext = true
          · have := filterLoop_announced cfg.src t (seekNext (ScanSt.seeRdh { s with rest := s.rest.drop 64 } (decodeRdh (s.rest.take 64)))
              (decodeRdh (s.rest.take 64)).offsetNext) [] _ _ (Announced.refl _)
            simp only [hmt, hsk, Bool.false_eq_true, ↓reduceIte, Bool.not_true]
            generalize filterLoop cfg.src t _ [] = x at this
            obtain ⟨x1, x2, x3⟩ := x
            have h3 : Announced s.links s.fees _ x1 := h2.trans (this.same rfl rfl rfl rfl)
            cases x3 <;> exact h3.same rfl rfl rfl rfl
          · simp only [hmt, hsk, Bool.false_eq_true, ↓reduceIte, Bool.not_false]
            exact (h2.post [] rfl rfl).same rfl rfl rfl rfl

theorem loadCdp_announced (cfg : ScanCfg) (s : ScanSt) :
    Announced s.links s.fees (loadCdp cfg s).2.1 (loadCdp cfg s).1 := by
  have h := loadRdh_announced cfg s
  unfold loadCdp
  generalize loadRdh cfg s = r at h
  obtain ⟨s1, m, res⟩ := r
  cases res with
  | error e => exact h
  | ok r =>
    simp only
    split
    · refine (h.post _ ?_ ?_).same rfl rfl rfl rfl <;> (split <;> simp [linkOf, feeOf])
    · split
      · exact (h.post _ (by simp [linkOf]) (by simp [feeOf])).same rfl rfl rfl rfl
      · exact h.same rfl rfl rfl rfl

theorem scanLoop_announced (cfg : ScanCfg) (s : ScanSt) (pk : List Packet) (ms : List InMsg) (l0 f0 : List Nat)
    (hms : Announced l0 f0 ms s) :
    Announced l0 f0 (scanLoop cfg s pk ms).msgs (scanLoop cfg s pk ms).final := by
  fun_induction scanLoop cfg s pk ms with
  | case1 s pk ms s1 m e h =>
    have := loadCdp_announced cfg s; rw [h] at this; exact hms.trans this
  | case2 s pk ms s1 m p h hg ih =>
    have := loadCdp_announced cfg s; rw [h] at this; exact ih (hms.trans this)
  | case3 s pk ms s1 m p h hg =>
    have := loadCdp_announced cfg s; rw [h] at this; exact hms.trans this

/-! ### on a well-framed input the scanner raises no alarm -/

/-- scanner messages that are neither an error, nor fatal, nor one of the flushed counters; an
    announced system id satisfies `V` (the caller's "known system id") -/
def _root_.FastPasta.InMsg.benign (V : Nat → Bool) : InMsg → Bool
  | .link _ | .fee _ | .runTrigger _ | .dataFormat _ => true
  | .systemId v => V v
  | _ => false

def AllBenign (V : Nat → Bool) (l : List InMsg) : Prop := ∀ m ∈ l, m.benign V = true
theorem AllBenign.nil {V : Nat → Bool} : AllBenign V [] := by intro m hm; simp at hm
theorem AllBenign.append {V : Nat → Bool} {a b : List InMsg} (ha : AllBenign V a) (hb : AllBenign V b) : AllBenign V (a ++ b) := by
  intro m hm
  simp only [List.mem_append] at hm
  rcases hm with hm | hm
  · exact ha m hm
  · exact hb m hm

theorem seeMsgs_benign (V : Nat → Bool) (s : ScanSt) (r : Rdh) : AllBenign V (s.seeMsgs r) := by
  intro m hm
  simp only [ScanSt.seeMsgs, List.mem_append] at hm
  rcases hm with hm | hm <;> (split at hm <;> simp at hm; subst hm; rfl)

theorem filterLoop_benign (V : Nat → Bool) (src : Src) (t : Filter) (ps : List RawPkt) (hwf : ∀ p ∈ ps, WF p)
    (tail : Bytes) (htail : tail.length < 64) :
    ∀ (s : ScanSt) (acc : List InMsg), s.rest = bytesOf ps ++ tail → AllBenign V acc →
      AllBenign V (filterLoop src t s acc).2.1 := by
  induction ps with
  | nil =>
    intro s acc hs hacc
    simp only [bytesOf, List.flatMap_nil, List.nil_append] at hs
    rw [filterLoop]
    simp only [hs, htail, ↓reduceDIte]
    exact hacc
  | cons p ps ih =>
    intro s acc hs hacc
    have hp := hwf p (by simp)
    rw [bytesOf_cons, List.append_assoc, List.append_assoc] at hs
    obtain ⟨ht, hd, hl⟩ := take_hdr p hp (p.payload ++ (bytesOf ps ++ tail))
    rw [filterLoop]
    simp only [hs, hl, ↓reduceDIte, ht, hd]
    have hok := offsetOk_of_wf p hp
    simp only [RawPkt.rdh] at hok
    simp only [hok, Bool.not_true, Bool.false_eq_true, ↓reduceIte]
    by_cases hm : t.matches (decodeRdh p.hdr) = true
    · simp only [hm, ↓reduceIte]
      exact hacc.append (seeMsgs_benign V _ _)
    · have hoff : (decodeRdh p.hdr).offsetNext = 64 + p.payload.length := hp.off
      have hseek : seekOk src (ScanSt.seeRdh { s with rest := p.payload ++ (bytesOf ps ++ tail) } (decodeRdh p.hdr))
          (decodeRdh p.hdr).offsetNext = true := by
        cases src <;> simp [seekOk, ScanSt.seeRdh, hoff]
      simp only [hm, Bool.false_eq_true, ↓reduceIte, hseek, Bool.not_true]
      have hrest : (seekNext (ScanSt.seeRdh { s with rest := p.payload ++ (bytesOf ps ++ tail) } (decodeRdh p.hdr))
          (decodeRdh p.hdr).offsetNext).rest = bytesOf ps ++ tail := by
        simp [seekNext, ScanSt.seeRdh, hoff]
      exact ih (fun q hq => hwf q (by simp [hq])) _ _ hrest (hacc.append (seeMsgs_benign V _ _))

theorem loadRdh_benign (V : Nat → Bool) (cfg : ScanCfg) (ps : List RawPkt) (hwf : ∀ p ∈ ps, WF p)
    (hV : ∀ p ∈ ps, V p.rdh.systemId = true)
    (tail : Bytes) (htail : tail.length < 64) (s : ScanSt) (hs : s.rest = bytesOf ps ++ tail) :
    AllBenign V (loadRdh cfg s).2.1 := by
  cases ps with
  | nil =>
    simp only [bytesOf, List.flatMap_nil, List.nil_append] at hs
    simp only [loadRdh, hs, htail, ↓reduceIte]
    exact AllBenign.nil
  | cons p ps =>
    have hp := hwf p (by simp)
    rw [bytesOf_cons, List.append_assoc, List.append_assoc] at hs
    obtain ⟨ht, hd, hl⟩ := take_hdr p hp (p.payload ++ (bytesOf ps ++ tail))
    have hok := offsetOk_of_wf p hp
    simp only [RawPkt.rdh] at hok
    have hoff : (decodeRdh p.hdr).offsetNext = 64 + p.payload.length := hp.off
    have hVp : V (decodeRdh p.hdr).systemId = true := hV p (by simp)
    have hm0 : AllBenign V (if s.pos == 0 then [InMsg.runTrigger (decodeRdh p.hdr).triggerType,
        .dataFormat (decodeRdh p.hdr).dataFormat, .systemId (decodeRdh p.hdr).systemId] else []) := by
      intro m hm
      split at hm
      · simp only [List.mem_cons, List.not_mem_nil, or_false] at hm
        rcases hm with rfl | rfl | rfl
        · rfl
        · rfl
        · exact hVp
      · simp at hm
    have hm1 : AllBenign V (ScanSt.seeMsgs { s with rest := p.payload ++ (bytesOf ps ++ tail) } (decodeRdh p.hdr)) := seeMsgs_benign V _ _
    unfold loadRdh
    simp only [hs, hl, ↓reduceIte, ht, hd, hok, Bool.not_true, Bool.false_eq_true]
    cases hf : cfg.filter with
    | none => simp only; exact (hm0.append hm1).append AllBenign.nil
    | some t =>
      by_cases hmt : t.matches (decodeRdh p.hdr) = true
      · simp only [hmt, ↓reduceIte]; exact (hm0.append hm1).append AllBenign.nil
      · have hseek : seekOk cfg.src (ScanSt.seeRdh { s with rest := p.payload ++ (bytesOf ps ++ tail) } (decodeRdh p.hdr))
            (decodeRdh p.hdr).offsetNext = true := by
          cases cfg.src <;> simp [seekOk, ScanSt.seeRdh, hoff]
        have hrest : (seekNext (ScanSt.seeRdh { s with rest := p.payload ++ (bytesOf ps ++ tail) } (decodeRdh p.hdr))
            (decodeRdh p.hdr).offsetNext).rest = bytesOf ps ++ tail := by
          simp [seekNext, ScanSt.seeRdh, hoff]
        have := filterLoop_benign V cfg.src t ps (fun q hq => hwf q (by simp [hq])) tail htail _ [] hrest AllBenign.nil
        simp only [hmt, hseek, Bool.false_eq_true, ↓reduceIte, Bool.not_true]
        generalize filterLoop cfg.src t _ [] = x at this
        obtain ⟨x1, x2, x3⟩ := x
        cases x3 <;> exact (hm0.append hm1).append this

theorem loadCdp_benign (V : Nat → Bool) (cfg : ScanCfg) (ps : List RawPkt) (hwf : ∀ p ∈ ps, WF p)
    (hV : ∀ p ∈ ps, V p.rdh.systemId = true)
    (tail : Bytes) (htail : tail.length < 64) (s : ScanSt) (hs : s.rest = bytesOf ps ++ tail) :
    AllBenign V (loadCdp cfg s).2.1 := by
  have hb := loadRdh_benign V cfg ps hwf hV tail htail s hs
  have h := loadRdh_spec cfg ps hwf tail htail s hs
  generalize hfm : firstMatch cfg.filter s.pos ps = fm at h
  unfold loadCdp
  generalize loadRdh cfg s = r at h hb
  obtain ⟨s1, m, res⟩ := r
  cases fm with
  | none =>
    simp only at h
    subst h
    exact hb
  | some x =>
    obtain ⟨o', p, post⟩ := x
    simp only at h
    obtain ⟨h1, h2, h3⟩ := h
    subst h1
    have hp : WF p := hwf p (firstMatch_mem _ ps _ _ _ _ hfm).1
    have hoff : p.rdh.offsetNext = 64 + p.payload.length := hp.off
    have hsz := payloadSize_eq p hp
    simp only
    by_cases hskip : cfg.skipPayload = true
    · have hseek : seekOk cfg.src s1 p.rdh.offsetNext = true := by
        cases cfg.src <;> simp [seekOk, h2, hoff]
      simp only [hskip, ↓reduceIte, hseek, List.append_nil]
      exact hb
    · have hlen : ¬ (p.payload.length + ((bytesOf post).length + tail.length) < p.payload.length) := by omega
      simp only [hskip, Bool.false_eq_true, ↓reduceIte, h2, hsz, List.length_append, hlen]
      exact hb

theorem scanLoop_benign (V : Nat → Bool) (cfg : ScanCfg) (tail : Bytes) (htail : tail.length < 64) :
    ∀ (n : Nat) (ps : List RawPkt), ps.length ≤ n →
    (∀ p ∈ ps, WF p) → (∀ p ∈ ps, V p.rdh.systemId = true) →
    ∀ (s : ScanSt) (pk : List Packet) (ms : List InMsg), s.rest = bytesOf ps ++ tail →
      AllBenign V ms → AllBenign V (scanLoop cfg s pk ms).msgs := by
  intro n
  induction n with
  | zero =>
    intro ps hlen hwf hV s pk ms hs hms
    have : ps = [] := List.eq_nil_of_length_eq_zero (by omega)
    subst this
    have h := loadCdp_spec cfg [] hwf tail htail s hs
    have hb := loadCdp_benign V cfg [] hwf hV tail htail s hs
    simp only [firstMatch] at h
    obtain ⟨e, he, rfl⟩ := h
    rw [scanLoop]
    generalize hl : loadCdp cfg s = r at he hb
    obtain ⟨s1, m, res⟩ := r
    simp only at he
    subst he
    exact hms.append hb
  | succ n ih =>
    intro ps hlen hwf hV s pk ms hs hms
    have h := loadCdp_spec cfg ps hwf tail htail s hs
    have hb := loadCdp_benign V cfg ps hwf hV tail htail s hs
    generalize hfm : firstMatch cfg.filter s.pos ps = fm at h
    rw [scanLoop]
    generalize hl : loadCdp cfg s = r at h hb
    obtain ⟨s1, m, res⟩ := r
    cases fm with
    | none =>
      simp only at h
      obtain ⟨e, he, rfl⟩ := h
      subst he
      exact hms.append hb
    | some x =>
      obtain ⟨o', p, post⟩ := x
      simp only at h
      obtain ⟨h1, h2, h3⟩ := h
      subst h1
      have hlt := firstMatch_bytes_len cfg.filter ps hwf s.pos o' p post hfm
      have hguard : s1.rest.length < s.rest.length := by
        rw [h2, hs]; simp only [List.length_append]; omega
      simp only [hguard, ↓reduceIte]
      have hpl := firstMatch_post_len cfg.filter s.pos ps o' p post hfm
      have hwf' : ∀ q ∈ post, WF q := fun q hq => hwf q ((firstMatch_mem _ ps _ _ _ _ hfm).2 q hq)
      have hV' : ∀ q ∈ post, V q.rdh.systemId = true := fun q hq => hV q ((firstMatch_mem _ ps _ _ _ _ hfm).2 q hq)
      exact ih post (by omega) hwf' hV' s1 _ _ h2 (hms.append hb)

end C03
end FastPasta
