/-
  Proofs.Collector — the counters of the collector are "initial value + sum over the messages",
  whatever the order of arrival (used by C14 and C05).
-/
import FastPasta.Model.Collector
namespace FastPasta

def Stat.seen : Stat → Nat | .rdhSeen n => n | _ => 0
def Stat.filteredN : Stat → Nat | .rdhFiltered n => n | _ => 0
def Stat.payloadN : Stat → Nat | .payloadSize n => n | _ => 0
def Stat.hbfsN : Stat → Nat | .hbfs n => n | _ => 0
def Stat.trigBit (k : Nat) : Stat → Nat | .triggerType t => t / 2^k % 2 | _ => 0

theorem step_seen (cap : Nat) (c : Coll) (m : Stat) : (c.step cap m).rdhsSeen = c.rdhsSeen + m.seen := by
  cases m <;> simp [Coll.step, Stat.seen] <;> (repeat' split) <;> simp
theorem step_filtered (cap : Nat) (c : Coll) (m : Stat) : (c.step cap m).rdhsFiltered = c.rdhsFiltered + m.filteredN := by
  cases m <;> simp [Coll.step, Stat.filteredN] <;> (repeat' split) <;> simp
theorem step_payload (cap : Nat) (c : Coll) (m : Stat) : (c.step cap m).payload = c.payload + m.payloadN := by
  cases m <;> simp [Coll.step, Stat.payloadN] <;> (repeat' split) <;> simp
theorem step_hbfs (cap : Nat) (c : Coll) (m : Stat) : (c.step cap m).hbfs = c.hbfs + m.hbfsN := by
  cases m <;> simp [Coll.step, Stat.hbfsN] <;> (repeat' split) <;> simp
theorem step_trig (cap : Nat) (c : Coll) (m : Stat) (k : Nat) : (c.step cap m).trig k = c.trig k + m.trigBit k := by
  cases m <;> simp [Coll.step, Stat.trigBit] <;> (repeat' split) <;> simp

theorem run_counter (f : Coll → Nat) (g : Stat → Nat) (cap : Nat)
    (hstep : ∀ c m, f (c.step cap m) = f c + g m) (ms : List Stat) :
    ∀ c, f (Coll.run cap c ms) = f c + (ms.map g).sum := by
  induction ms with
  | nil => intro c; simp [Coll.run]
  | cons m ms ih =>
    intro c
    simp only [Coll.run, List.foldl_cons, List.map_cons, List.sum_cons] at ih ⊢
    rw [ih (c.step cap m), hstep]
    omega

theorem run_seen (cap : Nat) (c : Coll) (ms : List Stat) :
    (Coll.run cap c ms).rdhsSeen = c.rdhsSeen + (ms.map Stat.seen).sum :=
  run_counter (·.rdhsSeen) Stat.seen cap (step_seen cap) ms c
theorem run_filtered (cap : Nat) (c : Coll) (ms : List Stat) :
    (Coll.run cap c ms).rdhsFiltered = c.rdhsFiltered + (ms.map Stat.filteredN).sum :=
  run_counter (·.rdhsFiltered) Stat.filteredN cap (step_filtered cap) ms c
theorem run_payload (cap : Nat) (c : Coll) (ms : List Stat) :
    (Coll.run cap c ms).payload = c.payload + (ms.map Stat.payloadN).sum :=
  run_counter (·.payload) Stat.payloadN cap (step_payload cap) ms c
theorem run_hbfs (cap : Nat) (c : Coll) (ms : List Stat) :
    (Coll.run cap c ms).hbfs = c.hbfs + (ms.map Stat.hbfsN).sum :=
  run_counter (·.hbfs) Stat.hbfsN cap (step_hbfs cap) ms c
theorem run_trig (cap : Nat) (c : Coll) (ms : List Stat) (k : Nat) :
    (Coll.run cap c ms).trig k = c.trig k + (ms.map (Stat.trigBit k)).sum :=
  run_counter (·.trig k) (Stat.trigBit k) cap (fun c m => step_trig cap c m k) ms c

end FastPasta
