/-
  Proofs.Link — the per-link fold composes over concatenation.
-/
import FastPasta.Model.Cdp
namespace FastPasta

theorem linkRun_append (cfg : CheckCfg) (ps qs : List Packet) : ∀ (s : LinkSt),
    linkRun cfg s (ps ++ qs) =
      match linkRun cfg s ps with
      | .error e => .error e
      | .ok (s1, m1) =>
        match linkRun cfg s1 qs with
        | .error e => .error e
        | .ok (s2, m2) => .ok (s2, m1 ++ m2) := by
  induction ps with
  | nil =>
    intro s
    simp only [List.nil_append, linkRun]
    cases linkRun cfg s qs with
    | error e => rfl
    | ok r => obtain ⟨a, b⟩ := r; simp
  | cons p ps ih =>
    intro s
    simp only [List.cons_append, linkRun]
    cases hstep : linkStep cfg s p with
    | error e => rfl
    | ok r =>
      obtain ⟨s1, m1⟩ := r
      simp only
      rw [ih s1]
      cases linkRun cfg s1 ps with
      | error e => rfl
      | ok r2 =>
        obtain ⟨s2, m2⟩ := r2
        simp only
        cases linkRun cfg s2 qs with
        | error e => rfl
        | ok r3 => obtain ⟨s3, m3⟩ := r3; simp [List.append_assoc]


theorem linkRun_snoc (cfg : CheckCfg) (ps : List Packet) (p : Packet) (s0 s1 : LinkSt) (m1 : List Msg)
    (h : linkRun cfg s0 ps = .ok (s1, m1)) :
    linkRun cfg s0 (ps ++ [p]) =
      match linkStep cfg s1 p with
      | .error e => .error e
      | .ok (s2, m2) => .ok (s2, m1 ++ m2) := by
  rw [linkRun_append, h]
  simp only [linkRun]
  cases linkStep cfg s1 p with
  | error e => rfl
  | ok r => obtain ⟨a, b⟩ := r; simp

end FastPasta
