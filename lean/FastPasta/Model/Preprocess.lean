/-
  Model.Preprocess — cutting a payload into 10-byte words
  (fastpasta/src/analyze/validators/lib.rs: preprocess_payload).
  Release-profile behaviour: the `debug_assert!`s are not evaluated.
-/
import FastPasta.Model.Bytes
namespace FastPasta

/-- length of the trailing run of 0xFF bytes -/
def ffRun (p : Bytes) : Nat := (p.reverse.takeWhile (· == 0xFF)).length

/-- format 0 detected iff bytes 10..15 exist and are all zero -/
def detectV0 (p : Bytes) : Bool :=
  (((p.drop 10).take 6).takeWhile (· == 0x00)).length == 6

/-- `slice::chunks_exact(n)` : consecutive full chunks, remainder dropped -/
def chunksExact (n : Nat) (l : List α) : List (List α) :=
  if h : n = 0 ∨ l.length < n then [] else
    l.take n :: chunksExact n (l.drop n)
termination_by l.length
decreasing_by simp only [List.length_drop]; omega

/-- `preprocess_payload` followed by the `&gbt_word[..10]` the callers take:
    `none` = the "more than 15 bytes of 0xFF" payload error. -/
def cutPayload (p : Bytes) : Option (List Bytes) :=
  let ff := ffRun p
  if ff > 15 then none
  else if detectV0 p then some ((chunksExact 16 p).map (·.take 10))
  else if ff > 9 then some (chunksExact 10 (p.take (p.length - ff)))
  else some (chunksExact 10 p)

end FastPasta
