/-
  Model.Cli — one whole run for a *sequential* schedule: init gate, scanning, analysis
  statistics, validators, collector, custom checks, display, exit status, filtered output.
  (fastpasta/src/{init,lib,controller}.rs, analyze/lib.rs, write/*.rs, config.rs)
-/
import FastPasta.Model.Scanner
import FastPasta.Model.Collector
namespace FastPasta

inductive Cmd | none | checkSanity | checkAll | viewRdh | viewFrames | viewFramesData
  deriving DecidableEq, Repr, Inhabited

structure Opts where
  cmd : Cmd := .none
  target : Target := .none
  filter : Option Filter := none
  src : Src := .file
  mute : Bool := false
  cap : Nat := 0                         -- -e
  anyErrCode : Option Nat := none        -- -E
  codeFilter : Option (List String) := none   -- -w
  triggerPeriod : Option Nat := none
  customCdps : Option Nat := none
  customPht : Option Nat := none
  customRdhVersion : Option Nat := none
  alpide : AlpideCfg := {}
  writeOutput : Bool := true             -- output mode is not `None` (stdout or a file)
  deriving Repr, Inhabited

def Opts.isCheck (o : Opts) : Bool := o.cmd == .checkSanity || o.cmd == .checkAll
def Opts.isView (o : Opts) : Bool := o.cmd == .viewRdh || o.cmd == .viewFrames || o.cmd == .viewFramesData
/-- `FilterOpt::skip_payload` -/
def Opts.skipPayload (o : Opts) : Bool := o.cmd == .viewRdh || (o.isCheck && o.target == .none)
def Opts.scanCfg (o : Opts) : ScanCfg := { filter := o.filter, skipPayload := o.skipPayload, src := o.src }
def Opts.checkCfg (o : Opts) : CheckCfg :=
  { running := o.cmd == .checkAll, target := o.target, customRdhVersion := o.customRdhVersion,
    triggerPeriod := o.triggerPeriod, alpide := o.alpide }

/-- `validate_args` (the rules not already enforced by clap) -/
def Opts.valid (o : Opts) : Bool :=
  !(o.cmd == .checkSanity && o.target == .itsStave) &&
  !(o.triggerPeriod.isSome && !(o.isCheck && o.target == .itsStave)) &&
  o.anyErrCode != some 0

def validSystemIds : List Nat := [3,4,5,6,7,8,10,15,17,18,19,32,33,34,35,36,37,38,39,255]

def inMsgToStat : InMsg → List Stat
  | .fatalOffset _ d => [.fatal s!"RDH offset to next is {d}"]
  | .error f => [.error f]
  | .runTrigger t => [.runTrigger t]
  | .dataFormat f => [.dataFormat f]
  | .systemId s => if validSystemIds.contains s then [.systemId s] else [.fatal "Failed to parse system ID"]
  | .link l => [.link l]
  | .fee f => [.feeId f]
  | .rdhSeen n => [.rdhSeen n]
  | .rdhFiltered n => [.rdhFiltered n]
  | .payloadSize n => [.payloadSize n]

def msgToStat : Msg → Stat
  | .error f => .error f
  | .alpideStats s => .alpide s

/-- statistics the analysis thread sends for one batch (analyze/lib.rs): `sys` = system id of
    the first RDH ever analysed -/
def analysisBatch (sys : Nat) (batch : List Packet) : List Stat :=
  if validSystemIds.contains sys then
    batch.flatMap (fun p => [Stat.triggerType p.rdh.triggerType] ++
      (if sys == 32 then [Stat.layerStave p.rdh.layer p.rdh.stave] else [])) ++
    [.hbfs (batch.filter (·.rdh.stopBit == 1)).length]
  else match batch with
    | [] => [.hbfs 0]
    | p :: _ => [.triggerType p.rdh.triggerType, .fatal s!"Unknown system ID {sys}",
                 .hbfs (if p.rdh.stopBit == 1 then 1 else 0)]

def analysisMsgs (packets : List Packet) : List Stat :=
  match packets with
  | [] => []
  | p0 :: _ => (chunksExact' BATCH packets).flatMap (analysisBatch p0.rdh.systemId)
 where
  /-- batches of `n` with a final short batch -/
  chunksExact' (n : Nat) (l : List Packet) : List (List Packet) :=
    if h : n = 0 ∨ l = [] then [] else l.take n :: chunksExact' n (l.drop n)
  termination_by l.length
  decreasing_by
    simp only [List.length_drop]
    have : l.length ≠ 0 := by intro h0; exact h (Or.inr (List.eq_nil_of_length_eq_zero h0))
    omega

structure Outcome where
  initErr : Bool
  packets : List Packet
  fin : Final
  shown : List Shown
  exit : Nat
  output : Bytes

/-- `Rdh0Validator::default().sanity_check` on the first 8 bytes -/
def initGateBad (input : Bytes) : Bool :=
  let r := decodeRdh (input.take 8)
  rdh0Bad r.headerId none r || !(3 ≤ r.headerId && r.headerId ≤ 100)

def encodePacket (p : Packet) : Bytes := encodeRdh p.rdh ++ p.payload

def emptyFinal : Final := { coll := {}, errors := [], customErrors := [], total := 0, uniqueCodes := [] }

def run (o : Opts) (input : Bytes) : Except PanicSite Outcome :=
  if input.length < 8 || initGateBad input then
    .ok { initErr := true, packets := [], fin := emptyFinal, shown := [], exit := 1, output := [] }
  else
  let version := bAt input 0
  let sc := scanAll o.scanCfg input
  let scanStats := sc.msgs.flatMap inMsgToStat
  let analysed := o.isCheck || o.isView
  let aStats := if analysed then analysisMsgs sc.packets else []
  let vres : Except PanicSite (List Stat) :=
    if o.isCheck then
      match runValidators o.checkCfg [] sc.packets with
      | .error e => .error e
      | .ok d => .ok (d.allMsgs.map msgToStat)
    else .ok []
  match vres with
  | .error e => .error e
  | .ok vStats =>
    let init : Coll := if o.isCheck && o.target == .itsStave then { alpide := some {} } else {}
    let coll := Coll.run o.cap init ([Stat.rdhVersion version] ++ aStats ++ vStats ++ scanStats)
    let fin := finalize o.mute o.customCdps o.customPht coll
    let shown := if o.isView then [] else displayed o.mute o.codeFilter o.cap fin
    let output := if !analysed && o.filter.isSome && o.writeOutput
                  then sc.packets.flatMap encodePacket else []
    .ok { initErr := false, packets := sc.packets, fin := fin, shown := shown,
          exit := exitCode false o.anyErrCode fin false, output := output }

end FastPasta
