/-
  Model.Scanner — the input scanner and reader loop
  (alice_protocol_reader/src/{input_scanner,mem_pos_tracker,stdin_reader,lib}.rs).
  The reader is a byte list (`rest`) plus the tracked memory position `pos`.
  `seek` on a file = drop (may pass the end silently); on a pipe = read-and-discard
  (a short read is the `InvalidInput` error).
-/
import FastPasta.Model.Cdp
namespace FastPasta

inductive Src | file | pipe
  deriving DecidableEq, Repr, Inhabited

inductive Filter
  | link (id : Nat) | fee (id : Nat) | stave (fee : Nat)
  deriving DecidableEq, Repr, Inhabited

/-- `is_rdh_filter_target` (layer/stave mask 0b0111_0000_0011_1111) -/
def Filter.matches (f : Filter) (r : Rdh) : Bool :=
  match f with
  | .link id => r.linkId == id
  | .fee id => r.feeId == id
  | .stave s => r.feeId / 4096 % 8 == s / 4096 % 8 && r.feeId % 64 == s % 64

def filterMatches (f : Option Filter) (r : Rdh) : Bool :=
  match f with | none => true | some t => t.matches r

structure ScanCfg where
  filter : Option Filter := none
  skipPayload : Bool := false
  src : Src := .file
  deriving Repr, Inhabited

/-- statistics / error messages the scanner sends (`InputStatType`), in emission order -/
inductive InMsg
  | fatalOffset (pos : Nat) (offsetMinus64 : Int)     -- "RDH offset to next is …"
  | error (f : Finding)                               -- [E100] / [E101]
  | runTrigger (t : Nat) | dataFormat (f : Nat) | systemId (s : Nat)
  | link (l : Nat) | fee (f : Nat)
  | rdhSeen (n : Nat) | rdhFiltered (n : Nat) | payloadSize (n : Nat)
  deriving Repr, Inhabited

structure ScanSt where
  rest : Bytes
  pos : Nat := 0
  seen : Nat := 0
  filtered : Nat := 0
  payload : Nat := 0
  links : List Nat := []
  fees : List Nat := []
  deriving Repr, Inhabited

inductive LoadErr | eof | invalidData | other
  deriving DecidableEq, Repr, Inhabited

/-- `collect_rdh_seen_stats` -/
def ScanSt.seeRdh (s : ScanSt) (r : Rdh) : ScanSt :=
  { s with seen := s.seen + 1,
           links := if s.links.contains r.linkId then s.links else s.links ++ [r.linkId],
           fees := if s.fees.contains r.feeId then s.fees else s.fees ++ [r.feeId] }
def ScanSt.seeMsgs (s : ScanSt) (r : Rdh) : List InMsg :=
  (if s.links.contains r.linkId then [] else [InMsg.link r.linkId]) ++
  (if s.fees.contains r.feeId then [] else [InMsg.fee r.feeId])

/-- `sanity_check_offset_next`: offset − 64 must lie in 0..=10000 -/
def offsetOk (r : Rdh) : Bool := 64 ≤ r.offsetNext && r.offsetNext ≤ 10064

/-- `seek_to_next_rdh(offset)`: tracker += offset, reader skips offset − 64 bytes.
    Returns `none` for the pipe's short read (`InvalidInput`), the input being consumed. -/
def seekNext (s : ScanSt) (off : Nat) : ScanSt :=
  { s with pos := s.pos + off, rest := s.rest.drop (off - 64) }
def seekOk (src : Src) (s : ScanSt) (off : Nat) : Bool :=
  match src with
  | .file => true
  | .pipe => off - 64 ≤ s.rest.length

/-- the loop of `load_next_rdh_to_filter` after the first seek -/
def filterLoop (src : Src) (t : Filter) (s : ScanSt) (acc : List InMsg) :
    ScanSt × List InMsg × Except LoadErr Rdh :=
  if h : s.rest.length < 64 then ({ s with rest := [] }, acc, .error .eof) else
  let r := decodeRdh (s.rest.take 64)
  let s1 := { s with rest := s.rest.drop 64 }
  if !offsetOk r then (s1, acc ++ [.fatalOffset s.pos ((r.offsetNext : Int) - 64)], .error .invalidData) else
  let s2 := s1.seeRdh r
  let m := s1.seeMsgs r
  if t.matches r then ({ s2 with filtered := s2.filtered + 1 }, acc ++ m, .ok r) else
  let s3 := seekNext s2 r.offsetNext
  if !seekOk src s2 r.offsetNext then (s3, acc ++ m, .error .other) else
  filterLoop src t s3 (acc ++ m)
termination_by s.rest.length
decreasing_by
  simp only [seekNext, ScanSt.seeRdh, List.length_drop]
  omega

/-- `load_rdh_cru` -/
def loadRdh (cfg : ScanCfg) (s : ScanSt) : ScanSt × List InMsg × Except LoadErr Rdh :=
  if s.rest.length < 64 then ({ s with rest := [] }, [], .error .eof) else
  let r := decodeRdh (s.rest.take 64)
  let s1 := { s with rest := s.rest.drop 64 }
  let m0 := if s.pos == 0 then [InMsg.runTrigger r.triggerType, .dataFormat r.dataFormat, .systemId r.systemId] else []
  let s2 := s1.seeRdh r
  let m1 := s1.seeMsgs r
  if !offsetOk r then (s2, m0 ++ m1 ++ [.fatalOffset s.pos ((r.offsetNext : Int) - 64)], .error .invalidData) else
  let (s3, m2, res) :=
    match cfg.filter with
    | none => (s2, [], Except.ok r)
    | some t =>
      if t.matches r then ({ s2 with filtered := s2.filtered + 1 }, [], Except.ok r) else
      let s3 := seekNext s2 r.offsetNext
      if !seekOk cfg.src s2 r.offsetNext then (s3, [], Except.error LoadErr.other) else filterLoop cfg.src t s3 []
  match res with
  | .ok r' => ({ s3 with payload := s3.payload + r'.payloadSize }, m0 ++ m1 ++ m2, .ok r')
  | .error e => (s3, m0 ++ m1 ++ m2, .error e)

/-- `load_cdp` (offset sampled after the filter skip loop, i.e. the offset of the returned RDH) -/
def loadCdp (cfg : ScanCfg) (s : ScanSt) : ScanSt × List InMsg × Except LoadErr Packet :=
  match loadRdh cfg s with
  | (s1, m, .error e) => (s1, m, .error e)
  | (s1, m, .ok r) =>
    let off := s1.pos
    if cfg.skipPayload then
      let s2 := seekNext s1 r.offsetNext
      let m2 := if seekOk cfg.src s1 r.offsetNext then [] else [InMsg.error { offset := s2.pos, code := "E101" }]
      (s2, m ++ m2, .ok { offset := off, rdh := r, payload := [] })
    else
      let s2 := { s1 with pos := s1.pos + r.offsetNext }
      let n := r.payloadSize
      if s2.rest.length < n then
        ({ s2 with rest := [] }, m ++ [InMsg.error { offset := s2.pos, code := "E100" }],
         .ok { offset := off, rdh := r, payload := [] })
      else
        ({ s2 with rest := s2.rest.drop n }, m, .ok { offset := off, rdh := r, payload := s2.rest.take n })

structure ScanResult where
  packets : List Packet
  msgs : List InMsg
  final : ScanSt
  endedBy : LoadErr
  deriving Repr, Inhabited

/-- keep loading until the first error -/
def scanLoop (cfg : ScanCfg) (s : ScanSt) (pk : List Packet) (ms : List InMsg) : ScanResult :=
  match h : loadCdp cfg s with
  | (s1, m, .error e) => { packets := pk, msgs := ms ++ m, final := s1, endedBy := e }
  | (s1, m, .ok p) =>
    if s1.rest.length < s.rest.length then scanLoop cfg s1 (pk ++ [p]) (ms ++ m)
    else { packets := pk ++ [p], msgs := ms ++ m, final := s1, endedBy := .eof }  -- unreachable guard, see Proofs.Scanner
termination_by s.rest.length

def BATCH : Nat := 100

/-- the reader thread: batches of 100 (`get_array_batch`): every error kind the scanner can
    produce (end of input, invalid offset, short read while skipping on a pipe) ends the batch
    being filled and keeps the packets already loaded, so batching is invisible in the packet
    sequence; finally the scanner is dropped and flushes its counters. -/
def scanAll (cfg : ScanCfg) (input : Bytes) : ScanResult :=
  let r := scanLoop cfg { rest := input } [] []
  { r with msgs := r.msgs ++ [.rdhSeen r.final.seen, .rdhFiltered r.final.filtered, .payloadSize r.final.payload] }

end FastPasta
