/-
  Model.Dispatch — routing of packets to one validator per link (per FEE ID in stave mode)
  (analyze/validators/validator_dispatcher.rs) and the per-batch statistics of the analysis
  thread (analyze/lib.rs, stats.rs).
-/
import FastPasta.Model.Cdp
namespace FastPasta

/-- the id a packet is dispatched by -/
def dispatchId (cfg : CheckCfg) (r : Rdh) : Nat := if cfg.stave then r.feeId else r.linkId

/-- one private validator state per id, in order of first appearance, with the messages each
    validator has sent so far (its own sender order) -/
abbrev DispSt := List (Nat × LinkSt × List Msg)

def dispStep (cfg : CheckCfg) (d : DispSt) (p : Packet) : Except PanicSite DispSt :=
  let id := dispatchId cfg p.rdh
  let rec upd : DispSt → Except PanicSite DispSt
    | [] =>
      match linkStep cfg (LinkSt.init cfg) p with
      | .error e => .error e
      | .ok (s, m) => .ok [(id, s, m)]
    | (i, s, ms) :: rest =>
      if i == id then
        match linkStep cfg s p with
        | .error e => .error e
        | .ok (s', m) => .ok ((i, s', ms ++ m) :: rest)
      else
        match upd rest with
        | .error e => .error e
        | .ok rest' => .ok ((i, s, ms) :: rest')
  upd d

def runValidators (cfg : CheckCfg) : DispSt → List Packet → Except PanicSite DispSt
  | d, [] => .ok d
  | d, p :: ps =>
    match dispStep cfg d p with
    | .error e => .error e
    | .ok d' => runValidators cfg d' ps

def DispSt.msgsOf (d : DispSt) (id : Nat) : List Msg :=
  match d.find? (·.1 == id) with
  | some (_, _, ms) => ms
  | none => []

def DispSt.allMsgs (d : DispSt) : List Msg := d.flatMap (·.2.2)

end FastPasta
