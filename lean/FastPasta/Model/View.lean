/-
  Model.View — the content of the three views (analyze/view/*.rs, words/its/status_words/util.rs):
  structured rows; the text layout (column widths, colours) is not modelled.
-/
import FastPasta.Model.Cdp
namespace FastPasta

/-- `view rdh`: one row per delivered RDH -/
structure RdhRow where
  offset : Nat
  ver : Nat
  hsize : Nat
  fee : Nat
  sys : Nat
  offNext : Nat
  link : Nat
  pkt : Nat
  bc : Nat
  orbit : Nat
  df : Nat
  trig : Nat
  pages : Nat
  stop : Nat
  det : Nat
  deriving DecidableEq, Repr

def rdhRow (p : Packet) : RdhRow :=
  { offset := p.offset, ver := p.rdh.headerId, hsize := p.rdh.headerSize, fee := p.rdh.feeId, sys := p.rdh.systemId,
    offNext := p.rdh.offsetNext, link := p.rdh.linkId, pkt := p.rdh.packetCounter, bc := p.rdh.bc, orbit := p.rdh.orbit,
    df := p.rdh.dataFormat, trig := p.rdh.triggerType, pages := p.rdh.pagesCounter, stop := p.rdh.stopBit,
    det := p.rdh.detectorField }

def rdhViewRows (pk : List Packet) : List RdhRow := pk.map rdhRow

/-- word type by identifier (`ItsPayloadWord::from_id`); `none` = "Unknown ITS Payload Word ID" -/
inductive ViewKind | ihw | tdh | tdt | ddw | cdw | data
  deriving DecidableEq, Repr

def viewKindOfId (id : Nat) : Option ViewKind :=
  if isFsmDataId id then some .data
  else if id == ID_TDH then some .tdh else if id == ID_TDT then some .tdt else if id == ID_IHW then some .ihw
  else if id == ID_DDW0 then some .ddw else if id == ID_CDW then some .cdw else none

/-- `tdh_trigger_as_string`: priority SOC, internal, physics -/
def tdhTriggerStr (w : Bytes) : String :=
  if bAt w 1 / 2 % 2 == 1 then "SOC" else if bAt w 1 / 16 % 2 == 1 then "Internal"
  else if bAt w 0 / 16 % 2 == 1 then "PhT" else "Other"

/-- per byte: four lanes of two status bits each -/
def byteAnyFatal (b : Nat) : Bool := b % 4 == 3 || b / 4 % 4 == 3 || b / 16 % 4 == 3 || b / 64 % 4 == 3
def byteAnyError (b : Nat) : Bool := b / 2 % 2 == 1 || b / 8 % 2 == 1 || b / 32 % 2 == 1 || b / 128 % 2 == 1
def byteAnyWarning (b : Nat) : Bool := b % 2 == 1 || b / 4 % 2 == 1 || b / 16 % 2 == 1 || b / 64 % 2 == 1

/-- `ddw0_tdt_lane_status_as_string` over the 56 lane-status bits (bytes 0..6) -/
def laneStatusStr (w : Bytes) : String :=
  let bs := (w.take 7).map (·.toNat)
  if bs.any byteAnyFatal then "Fatal" else if bs.any byteAnyError then "Error"
  else if bs.any byteAnyWarning then "Warning" else "-"

/-- `rdh_detector_field_lane_status_as_string` -/
def rdhLaneStatusStr (det : Nat) : String :=
  if det / 8 % 2 == 1 then "Fatal" else if det / 4 % 2 == 1 then "Error" else if det / 2 % 2 == 1 then "Warning"
  else if det % 2 == 1 then "Missing" else "-"

/-- `trigger_type_string_from_int`: priority SOC, SOT, HB, PhT -/
def rdhTriggerStr (t : Nat) : String :=
  if t / 512 % 2 == 1 then "SOC" else if t / 128 % 2 == 1 then "SOT" else if t / 2 % 2 == 1 then "HB"
  else if t / 16 % 2 == 1 then "PhT" else "Other"

structure WordRow where
  offset : Nat
  kind : ViewKind
  bytes : Bytes
  attrs : List String
  deriving DecidableEq, Repr

def wordAttrs (k : ViewKind) (w : Bytes) : List String :=
  match k with
  | .tdh => [tdhTriggerStr w, if tdhContinuation w == 1 then "Cont." else "", if tdhNoData w == 1 then "No data" else "Data!",
             s!"{tdhOrbit w}_{tdhBc w}"]
  | .tdt => [if tdtPacketDone w then "Complete" else "Split", laneStatusStr w]
  | .ddw => [laneStatusStr w]
  | _ => []

/-- rows of one packet's payload in the readout-frame views; `none` = the payload error -/
def wordRowsFrom (showData : Bool) (base slot : Nat) : Nat → List Bytes → List WordRow
  | _, [] => []
  | k, w :: ws =>
    (match viewKindOfId (wordId w) with
     | some .data => if showData then [{ offset := base + k * slot, kind := .data, bytes := w, attrs := [] }] else []
     | some kind => [{ offset := base + k * slot, kind := kind, bytes := w, attrs := wordAttrs kind w }]
     | none => []) ++ wordRowsFrom showData base slot (k + 1) ws

structure FrameRdhRow where
  offset : Nat
  ver : Nat
  stop : Nat
  layer : Nat
  stave : Nat
  trig : String
  link : Nat
  laneStatus : String
  orbit : Nat
  bc : Nat
  deriving DecidableEq, Repr

inductive FrameRow | rdh (r : FrameRdhRow) | word (w : WordRow)
  deriving DecidableEq, Repr

def frameRdhRow (p : Packet) : FrameRdhRow :=
  { offset := p.offset, ver := p.rdh.headerId, stop := p.rdh.stopBit, layer := p.rdh.layer, stave := p.rdh.stave,
    trig := rdhTriggerStr p.rdh.triggerType, link := p.rdh.linkId, laneStatus := rdhLaneStatusStr p.rdh.detectorField,
    orbit := p.rdh.orbit, bc := p.rdh.bc }

/-- rows of the readout-frame views for a packet list; stops (fatal message) at the first payload
    error or at a FEE ID of layer 7 (the `Stave::from_feeid` panic) -/
def frameViewRows (showData : Bool) : List Packet → Except PanicSite (List FrameRow × Bool)
  | [] => .ok ([], true)
  | p :: ps =>
    if p.rdh.layer > 6 then .error .invalidLayer else
    match cutPayload p.payload with
    | none => .ok ([.rdh (frameRdhRow p)], false)
    | some ws =>
      match frameViewRows showData ps with
      | .error e => .error e
      | .ok (rest, complete) =>
        .ok (.rdh (frameRdhRow p) :: (wordRowsFrom showData (p.offset + 64) (if p.rdh.dataFormat == 0 then 16 else 10) 0 ws).map .word ++ rest, complete)

end FastPasta
