/-
  Model.Rdh — the 64-byte RDH (alice_protocol_reader/src/rdh/{rdh0..3,rdh_cru}.rs).
  `decodeRdh` mirrors `from_rdh0_and_buf` (little-endian field reads), `encodeRdh` mirrors
  `to_byte_slice` (the packed struct reinterpreted as bytes).
-/
import FastPasta.Model.Bytes
namespace FastPasta

structure Rdh where
  headerId : Nat            -- byte 0
  headerSize : Nat          -- byte 1
  feeId : Nat               -- bytes 2..3
  priority : Nat            -- byte 4
  systemId : Nat            -- byte 5
  reserved0 : Nat           -- bytes 6..7
  offsetNext : Nat          -- bytes 8..9   offset_new_packet
  memSize : Nat             -- bytes 10..11
  linkId : Nat              -- byte 12
  packetCounter : Nat       -- byte 13
  cruidDw : Nat             -- bytes 14..15  12 bit cru id, 4 bit dw
  bcReserved : Nat          -- bytes 16..19  12 bit bc, 20 bit reserved
  orbit : Nat               -- bytes 20..23
  dataFormatReserved : Nat  -- bytes 24..31  8 bit data format, 56 bit reserved
  triggerType : Nat         -- bytes 32..35
  pagesCounter : Nat        -- bytes 36..37
  stopBit : Nat             -- byte 38
  rdh2Reserved : Nat        -- byte 39
  reserved1 : Nat           -- bytes 40..47
  detectorField : Nat       -- bytes 48..51
  parBit : Nat              -- bytes 52..53
  rdh3Reserved : Nat        -- bytes 54..55
  reserved2 : Nat           -- bytes 56..63
  deriving Repr, DecidableEq, Inhabited

def decodeRdh (bs : Bytes) : Rdh where
  headerId := leField bs 0 1
  headerSize := leField bs 1 1
  feeId := leField bs 2 2
  priority := leField bs 4 1
  systemId := leField bs 5 1
  reserved0 := leField bs 6 2
  offsetNext := leField bs 8 2
  memSize := leField bs 10 2
  linkId := leField bs 12 1
  packetCounter := leField bs 13 1
  cruidDw := leField bs 14 2
  bcReserved := leField bs 16 4
  orbit := leField bs 20 4
  dataFormatReserved := leField bs 24 8
  triggerType := leField bs 32 4
  pagesCounter := leField bs 36 2
  stopBit := leField bs 38 1
  rdh2Reserved := leField bs 39 1
  reserved1 := leField bs 40 8
  detectorField := leField bs 48 4
  parBit := leField bs 52 2
  rdh3Reserved := leField bs 54 2
  reserved2 := leField bs 56 8

def encodeRdh (r : Rdh) : Bytes :=
  natLe 1 r.headerId ++ natLe 1 r.headerSize ++ natLe 2 r.feeId ++ natLe 1 r.priority ++
  natLe 1 r.systemId ++ natLe 2 r.reserved0 ++ natLe 2 r.offsetNext ++ natLe 2 r.memSize ++
  natLe 1 r.linkId ++ natLe 1 r.packetCounter ++ natLe 2 r.cruidDw ++ natLe 4 r.bcReserved ++
  natLe 4 r.orbit ++ natLe 8 r.dataFormatReserved ++ natLe 4 r.triggerType ++
  natLe 2 r.pagesCounter ++ natLe 1 r.stopBit ++ natLe 1 r.rdh2Reserved ++ natLe 8 r.reserved1 ++
  natLe 4 r.detectorField ++ natLe 2 r.parBit ++ natLe 2 r.rdh3Reserved ++ natLe 8 r.reserved2

namespace Rdh
/-- `memory_size - 64` in `u16` arithmetic (release profile: wraps). -/
def payloadSize (r : Rdh) : Nat := (r.memSize + 65536 - 64) % 65536
def bc (r : Rdh) : Nat := r.bcReserved % 4096
def rdh1Reserved (r : Rdh) : Nat := r.bcReserved / 4096
def cruId (r : Rdh) : Nat := r.cruidDw % 4096
def dw (r : Rdh) : Nat := r.cruidDw / 4096
def dataFormat (r : Rdh) : Nat := r.dataFormatReserved % 256
def layer (r : Rdh) : Nat := r.feeId / 4096 % 8
def stave (r : Rdh) : Nat := r.feeId % 64
def isPht (r : Rdh) : Bool := r.triggerType / 16 % 2 == 1
end Rdh

def feeLayer (fee : Nat) : Nat := fee / 4096 % 8
def feeStave (fee : Nat) : Nat := fee % 64

end FastPasta
