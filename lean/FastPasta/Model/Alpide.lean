/-
  Model.Alpide — byte-wise ALPIDE lane decoder, per-lane checks, lane count / grouping,
  cross-lane bunch counter comparison, readout-flag statistics.
  Mirrors words/its/alpide/alpide_word.rs, analyze/validators/its/alpide.rs,
  alpide/lane_alpide_frame_analyzer.rs, alpide/alpide_readout_frame.rs,
  stats/stats_collector/its_stats/alpide_stats.rs.
-/
import FastPasta.Model.Words
namespace FastPasta

/-- Data-reachable panic sites of the implementation (C04). -/
inductive PanicSite
  | invalidLayer             -- words/its.rs:94           panic!("Invalid layer number")
  | ihwMissing               -- cdp_running.rs  status_words.ihw().unwrap()
  | feeIdNotSeen             -- error_stats.rs:78-86 expect("FEE ID found in error message ...")
  deriving DecidableEq, Repr, Inhabited

def PanicSite.name : PanicSite → String
  | .invalidLayer => "invalidLayer"
  | .ihwMissing => "ihwMissing"
  | .feeIdNotSeen => "feeIdNotSeen"

inductive Barrel | inner | middle | outer
  deriving DecidableEq, Repr, Inhabited

/-- `Stave::from_feeid` / `Layer::from_stave`; `none` = `panic!("Invalid layer number")` -/
def barrelOfFee (fee : Nat) : Option Barrel :=
  let l := feeLayer fee
  if l ≤ 2 then some .inner else if l ≤ 4 then some .middle else if l ≤ 6 then some .outer else none
 where feeLayer (fee : Nat) : Nat := fee / 4096 % 8

/-- readout flag counters (`ReadoutFlags`) -/
structure AlpideStats where
  chipTrailers : Nat := 0
  busyViolations : Nat := 0
  dataOverrun : Nat := 0
  transmissionInFatal : Nat := 0
  flushedIncomplete : Nat := 0
  strobeExtended : Nat := 0
  busyTransitions : Nat := 0
  deriving DecidableEq, Repr, Inhabited

def AlpideStats.add (a b : AlpideStats) : AlpideStats where
  chipTrailers := a.chipTrailers + b.chipTrailers
  busyViolations := a.busyViolations + b.busyViolations
  dataOverrun := a.dataOverrun + b.dataOverrun
  transmissionInFatal := a.transmissionInFatal + b.transmissionInFatal
  flushedIncomplete := a.flushedIncomplete + b.flushedIncomplete
  strobeExtended := a.strobeExtended + b.strobeExtended
  busyTransitions := a.busyTransitions + b.busyTransitions

/-- `ReadoutFlags::log(chip_trailer)` -/
def AlpideStats.logTrailer (s : AlpideStats) (b : Nat) : AlpideStats :=
  let s := { s with chipTrailers := s.chipTrailers + 1 }
  if b == 0xB8 then { s with busyViolations := s.busyViolations + 1 }
  else if b == 0xBC then { s with dataOverrun := s.dataOverrun + 1 }
  else if b == 0xBE then { s with transmissionInFatal := s.transmissionInFatal + 1 }
  else { s with flushedIncomplete := s.flushedIncomplete + b / 4 % 2
                strobeExtended := s.strobeExtended + b / 2 % 2
                busyTransitions := s.busyTransitions + b % 2 }

/-- `AlpideWord::from_byte` -/
inductive AlpideWord
  | dataShort | dataLong | regionHeader | chipEmptyFrame | chipHeader | chipTrailer
  | busyOn | busyOff | apeWarn | apeFatal | unknown
  deriving DecidableEq, Repr, Inhabited

def alpideWord (b : Nat) : AlpideWord :=
  if b / 64 == 1 then .dataShort
  else if b / 64 == 0 then .dataLong
  else if b / 32 == 6 then .regionHeader
  else if b / 16 == 0xE then .chipEmptyFrame
  else if b / 16 == 0xA then .chipHeader
  else if b / 16 == 0xB then .chipTrailer
  else if b == 0xF0 then .busyOn
  else if b == 0xF1 then .busyOff
  else if b == 0xF2 || b == 0xFD || b == 0xFE then .apeWarn
  else if 0xF4 ≤ b && b ≤ 0xFC then .apeFatal
  else .unknown

/-- decoder state of `LaneAlpideFrameAnalyzer` -/
structure LaneDec where
  skip : Nat := 0
  nextIsBc : Bool := false
  headerSeen : Bool := false
  lastChip : Nat := 0
  chips : List (Nat × Nat) := []     -- (chip id, bunch counter) in order of first appearance
  fatal : Bool := false
  bcErr : Bool := false              -- "Bunch counter already set for chip" was recorded
  stats : AlpideStats := {}
  deriving DecidableEq, Repr, Inhabited

/-- `decode(alpide_byte)` -/
def LaneDec.step (d : LaneDec) (b : Nat) : LaneDec :=
  if d.skip > 0 then { d with skip := d.skip - 1 }
  else if d.nextIsBc then
    if d.chips.any (·.1 == d.lastChip) then { d with bcErr := true, nextIsBc := false }
    else { d with chips := d.chips ++ [(d.lastChip, b)], nextIsBc := false }
  else if !d.headerSeen && b == 0 then d
  else match alpideWord b with
    | .dataShort => { d with skip := 1 }
    | .dataLong => { d with skip := 2 }
    | .regionHeader => { d with headerSeen := true }
    | .chipHeader => { d with headerSeen := true, lastChip := b % 16, nextIsBc := true }
    | .chipEmptyFrame => { d with headerSeen := false, lastChip := b % 16, nextIsBc := true }
    | .chipTrailer => { d with headerSeen := false, stats := d.stats.logTrailer b }
    | .apeFatal => { d with fatal := true }
    | .busyOn | .busyOff | .apeWarn | .unknown => d

def decodeLane (bs : Bytes) : LaneDec := bs.foldl (fun d b => d.step b.toNat) {}

/-- user-configured ALPIDE checks -/
structure AlpideCfg where
  chipCountOb : Option Nat := none
  chipOrdersOb : Option (List (List Nat)) := none
  deriving Repr, Inhabited

/-- result of analysing one lane -/
inductive LaneVerdict
  | error (codes : List String)      -- E9003 / E9004 / E9005 / "BC" (bunch counter set twice)
  | fatal
  | valid (bc : Nat)
  deriving DecidableEq, Repr, Inhabited

def dedupNat : List Nat → List Nat
  | [] => []
  | x :: xs => x :: (dedupNat xs).filter (· != x)

/-- `check_chip_count`: inner barrel exactly one chip; outer barrel the configured count (if any) -/
def countBad (cfg : AlpideCfg) (barrel : Barrel) (d : LaneDec) : Bool :=
  match barrel with
  | .inner => d.chips.length != 1
  | _ => match cfg.chipCountOb with | some n => d.chips.length != n | none => false

/-- `check_chip_id_order` (evaluated only when the count passes): inner barrel chip id = lane;
    outer barrel one of the configured orders (if any) -/
def orderBad (cfg : AlpideCfg) (barrel : Barrel) (laneNumber : Nat) (d : LaneDec) : Bool :=
  match barrel with
  | .inner => (d.chips.map (·.1)).head? != some laneNumber
  | _ => match cfg.chipOrdersOb with | some os => !(os.contains (d.chips.map (·.1))) | none => false

/-- the lane's error codes in `do_lane_alpide_checks` order: "BC" = bunch counter set twice for
    a chip id, E9003 = no chip at all or more than one distinct bunch counter, E9004, E9005 -/
def laneCodes (cfg : AlpideCfg) (barrel : Barrel) (laneNumber : Nat) (d : LaneDec) : List String :=
  (if d.bcErr then ["BC"] else []) ++
  (if d.chips.isEmpty || (dedupNat (d.chips.map (·.2))).length > 1 then ["E9003"] else []) ++
  (if countBad cfg barrel d then ["E9004"] else if orderBad cfg barrel laneNumber d then ["E9005"] else [])

/-- `analyze_alpide_frame` + `do_lane_alpide_checks` for one lane -/
def laneVerdict (cfg : AlpideCfg) (barrel : Barrel) (laneNumber : Nat) (d : LaneDec) : LaneVerdict :=
  if d.fatal then .fatal else
  let codes := laneCodes cfg barrel laneNumber d
  if codes.isEmpty then .valid ((dedupNat (d.chips.map (·.2))).headD 0) else .error codes

/-- lane data of one readout frame: (data word ID, concatenated 9-byte chunks) in order of first
    appearance -/
abbrev LaneFrames := List (Nat × Bytes)

def storeLane (fs : LaneFrames) (id : Nat) (data : Bytes) : LaneFrames :=
  if fs.any (·.1 == id) then fs.map (fun f => if f.1 == id then (f.1, f.2 ++ data) else f)
  else fs ++ [(id, data)]

def laneNumber (barrel : Barrel) (id : Nat) : Nat :=
  match barrel with | .inner => ibLane id | _ => obLane id

structure FrameResult where
  laneErrorIds : List Nat
  laneErrorCount : Nat          -- number of lane error messages (incl. cross-lane mismatch)
  laneCodes : List String       -- nested codes E9003/4/5 in order
  stats : AlpideStats
  newFatal : List Nat
  deriving Repr, Inhabited

/-- `check_alpide_data_frame` -/
def checkAlpideFrame (cfg : AlpideCfg) (barrel : Barrel) (fs : LaneFrames) : FrameResult :=
  let rec go (fs : LaneFrames) (errIds : List Nat) (nErr : Nat) (codes : List String)
      (st : AlpideStats) (fatal : List Nat) (valid : List (Nat × Nat)) : FrameResult :=
    match fs with
    | [] =>
      let ubc := dedupNat (valid.map (·.2))
      if ubc.length > 1 then
        { laneErrorIds := errIds ++ (ubc.flatMap fun bc => (valid.filter (·.2 == bc)).map (·.1)),
          laneErrorCount := nErr + 1, laneCodes := codes, stats := st, newFatal := fatal }
      else { laneErrorIds := errIds, laneErrorCount := nErr, laneCodes := codes, stats := st, newFatal := fatal }
    | (id, data) :: rest =>
      let d := decodeLane data
      let ln := laneNumber barrel id
      match laneVerdict cfg barrel ln d with
      | .error cs => go rest (errIds ++ [ln]) (nErr + 1) (codes ++ cs) (st.add d.stats) fatal valid
      | .fatal => go rest errIds nErr codes (st.add d.stats) (fatal ++ [ln]) valid
      | .valid bc => go rest errIds nErr codes (st.add d.stats) fatal (valid ++ [(ln, bc)])
  go fs [] 0 [] {} [] []

def expectedLanes : Barrel → Nat
  | .inner => 3 | .middle => 8 | .outer => 14

def sortNat (l : List Nat) : List Nat := l.mergeSort (· ≤ ·)

/-- `check_frame_lanes_valid`: `true` = valid, `false` = reported (E72 inner / E73 outer) -/
def frameLanesValid (barrel : Barrel) (fs : LaneFrames) (fatal : Option (List Nat)) : Bool :=
  let nf := match fatal with | some l => l.length | none => 0
  -- usize subtraction, release profile: wraps
  let expect := (expectedLanes barrel + 2^64 - nf % 2^64) % 2^64
  if fs.length != expect then false
  else match barrel with
    | .inner =>
      let fl := fatal.getD []
      let ids := sortNat (fs.map (fun f => ibLane f.1))
      let g (base : Nat) : List Nat := [base, base + 1, base + 2].filter (fun x => !fl.contains x)
      ids == g 0 || ids == g 3 || ids == g 6
    | _ => true

end FastPasta
