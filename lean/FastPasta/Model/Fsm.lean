/-
  Model.Fsm — the ITS payload word-classification state machine
  (fastpasta/src/analyze/validators/its/its_payload_fsm_cont.rs).
  The 11 reachable variants of the `sm!` machine; ids are those of hook H1 (`verif_state_id`).
-/
import FastPasta.Model.Words
namespace FastPasta

inductive FsmSt
  | initialIhw            -- 0  InitialIHW_
  | tdhByWasIhw           -- 1  TDH_By_WasIhw
  | choiceByNoDataTrue    -- 2  DDW0_or_TDH_or_IHW_By_NoDataTrue
  | dataByNoDataFalse     -- 3  DATA_By_NoDataFalse
  | dataByWasData         -- 4  DATA_By_WasData
  | cIhwByTdtFalse        -- 5  c_IHW_By_WasTDTpacketDoneFalse
  | cTdhByNext            -- 6  c_TDH_By_Next
  | cDataByNext           -- 7  c_DATA_By_Next
  | cDataByWasData        -- 8  c_DATA_By_WasData
  | choiceByTdtTrue       -- 9  DDW0_or_TDH_or_IHW_By_WasTDTpacketDoneTrue
  | ihwByWasDdw0          -- 10 IHW_By_WasDdw0
  deriving DecidableEq, Repr, Inhabited

def FsmSt.id : FsmSt → Nat
  | .initialIhw => 0 | .tdhByWasIhw => 1 | .choiceByNoDataTrue => 2 | .dataByNoDataFalse => 3
  | .dataByWasData => 4 | .cIhwByTdtFalse => 5 | .cTdhByNext => 6 | .cDataByNext => 7
  | .cDataByWasData => 8 | .choiceByTdtTrue => 9 | .ihwByWasDdw0 => 10

def FsmSt.all : List FsmSt :=
  [.initialIhw, .tdhByWasIhw, .choiceByNoDataTrue, .dataByNoDataFalse, .dataByWasData,
   .cIhwByTdtFalse, .cTdhByNext, .cDataByNext, .cDataByWasData, .choiceByTdtTrue, .ihwByWasDdw0]

def FsmSt.ofId (n : Nat) : Option FsmSt := FsmSt.all.find? (·.id == n)

/-- `ItsPayloadWord` as returned by `advance` (Ok) or the ambiguity error (Err) -/
inductive WordClass
  | ihw | ihwCont | tdh | tdhCont | tdhAfterPacketDone | tdt | cdw | dataWord | ddw0
  | errTdhOrDdw0 | errDwOrTdtCdw | errDdw0OrTdhIhw
  deriving DecidableEq, Repr, Inhabited

def WordClass.name : WordClass → String
  | .ihw => "IHW" | .ihwCont => "IHW_continuation" | .tdh => "TDH" | .tdhCont => "TDH_continuation"
  | .tdhAfterPacketDone => "TDH_after_packet_done" | .tdt => "TDT" | .cdw => "CDW"
  | .dataWord => "DataWord" | .ddw0 => "DDW0"
  | .errTdhOrDdw0 => "ERR_TDH_or_DDW0" | .errDwOrTdtCdw => "ERR_DW_or_TDT_CDW"
  | .errDdw0OrTdhIhw => "ERR_DDW0_or_TDH_IHW"

/-- transition on the three observable attributes of a word: ID byte, TDH `no_data`, TDT
    `packet_done`. -/
def fsmStep (s : FsmSt) (id : Nat) (noData packetDone : Bool) : FsmSt × WordClass :=
  let dataLike : FsmSt → FsmSt × WordClass := fun stay =>
    if isFsmDataId id then (stay, .dataWord)
    else if id == ID_TDT then
      (if packetDone then (.choiceByTdtTrue, .tdt) else (.cIhwByTdtFalse, .tdt))
    else if id == ID_CDW then (stay, .cdw)
    else (stay, .errDwOrTdtCdw)
  match s with
  | .dataByWasData | .dataByNoDataFalse => dataLike .dataByWasData
  | .cDataByWasData | .cDataByNext => dataLike .cDataByWasData
  | .choiceByNoDataTrue =>
    if id == ID_TDH then
      (if noData then (.choiceByNoDataTrue, .tdhAfterPacketDone)
       else (.dataByNoDataFalse, .tdhAfterPacketDone))
    else if id == ID_IHW then (.tdhByWasIhw, .ihw)
    else if id == ID_DDW0 then (.ihwByWasDdw0, .ddw0)
    else (.dataByNoDataFalse, .errTdhOrDdw0)
  | .choiceByTdtTrue =>
    if id == ID_TDH then
      (if noData then (.choiceByNoDataTrue, .tdhAfterPacketDone)
       else (.dataByNoDataFalse, .tdhAfterPacketDone))
    else if id == ID_IHW then (.tdhByWasIhw, .ihw)
    else if id == ID_DDW0 then (.ihwByWasDdw0, .ddw0)
    else (.ihwByWasDdw0, .errDdw0OrTdhIhw)
  | .tdhByWasIhw => (if noData then .choiceByNoDataTrue else .dataByNoDataFalse, .tdh)
  | .cTdhByNext => (.cDataByNext, .tdhCont)
  | .cIhwByTdtFalse => (.cTdhByNext, .ihwCont)
  | .ihwByWasDdw0 | .initialIhw => (.tdhByWasIhw, .ihw)

/-- `advance(gbt_word)` -/
def fsmAdvance (s : FsmSt) (w : Bytes) : FsmSt × WordClass :=
  fsmStep s (wordId w) (tdhNoData w == 1) (tdtPacketDone w)

end FastPasta
