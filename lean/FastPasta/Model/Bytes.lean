/-
  Model.Bytes — byte strings, little-endian composition, hex I/O.
  Bytes are `UInt8`; multi-byte fields are `Nat` obtained by little-endian composition.
  No imports outside Lean core, so the driver links as a compiled executable.
-/
namespace FastPasta

abbrev Bytes := List UInt8

/-- Little-endian value of a byte string: `leNat [b0,b1,..] = b0 + 256*b1 + ..`. -/
def leNat : Bytes → Nat
  | [] => 0
  | b :: bs => b.toNat + 256 * leNat bs

/-- The `k` low-order bytes of `v`, little-endian. -/
def natLe : Nat → Nat → Bytes
  | 0, _ => []
  | k + 1, v => UInt8.ofNat (v % 256) :: natLe k (v / 256)

/-- `n` bytes starting at index `i` (shorter if the list ends). -/
def slice (bs : Bytes) (i n : Nat) : Bytes := (bs.drop i).take n

/-- Numeric value of byte `i` (0 beyond the end; callers guard the length). -/
def bAt (bs : Bytes) (i : Nat) : Nat := (bs.getD i 0).toNat

/-- little-endian field of `n` bytes at index `i` -/
def leField (bs : Bytes) (i n : Nat) : Nat := leNat (slice bs i n)

/-! ### hex -/

def hexDigit (n : Nat) : Char :=
  if n < 10 then Char.ofNat (48 + n) else Char.ofNat (55 + n)   -- upper-case A..F

def hexByte (b : UInt8) : String :=
  String.ofList [hexDigit (b.toNat / 16), hexDigit (b.toNat % 16)]

def toHex (bs : Bytes) : String := String.join (bs.map hexByte)

def hexVal (c : Char) : Option Nat :=
  if '0' ≤ c ∧ c ≤ '9' then some (c.toNat - 48)
  else if 'a' ≤ c ∧ c ≤ 'f' then some (c.toNat - 87)
  else if 'A' ≤ c ∧ c ≤ 'F' then some (c.toNat - 55)
  else none

def parseHexChars : List Char → Option Bytes
  | [] => some []
  | [_] => none
  | a :: b :: rest =>
    match hexVal a, hexVal b, parseHexChars rest with
    | some x, some y, some r => some (UInt8.ofNat (16 * x + y) :: r)
    | _, _, _ => none

/-- `-` denotes the empty byte string on the line protocol. -/
def parseHex (s : String) : Option Bytes :=
  if s == "-" then some [] else parseHexChars s.toList

/-- upper-case hexadecimal without prefix, as Rust's `{:X}` -/
def natToHexUpper (n : Nat) : String :=
  String.ofList (Nat.toDigits 16 n |>.map Char.toUpper)

end FastPasta
