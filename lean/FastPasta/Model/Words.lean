/-
  Model.Words — ITS payload words (80 bit = 10 bytes, little-endian; byte 9 is the ID).
  Mirrors fastpasta/src/words/its/status_words/*.rs (field extraction),
  analyze/validators/its/status_word/*.rs (sanity predicates) and
  analyze/validators/its/data_words*.rs, words/its/data_words.rs (data-word IDs, lanes).
  A word is a `Bytes` of length 10; all accessors use `bAt`, callers guarantee the length
  (the cutter only produces 10-byte words, see `Model.Preprocess`).
-/
import FastPasta.Model.Bytes
namespace FastPasta

def ID_IHW : Nat := 0xE0
def ID_TDH : Nat := 0xE8
def ID_TDT : Nat := 0xF0
def ID_DDW0 : Nat := 0xE4
def ID_CDW : Nat := 0xF8

def wordId (w : Bytes) : Nat := bAt w 9

/-! ### IHW -/
def ihwActiveLanes (w : Bytes) : Nat := leField w 0 4 % 2^28
/-- `Ihw::reserved() == 0` : bits 31:28 of the first u32, the second u32, the low byte of the id u16 -/
def ihwReservedZero (w : Bytes) : Bool :=
  leField w 0 4 / 2^28 % 16 == 0 && leField w 4 4 == 0 && bAt w 8 == 0
def ihwSane (w : Bytes) : Bool := wordId w == ID_IHW && ihwReservedZero w

/-! ### TDH -/
def tdhW0 (w : Bytes) : Nat := leField w 0 2
def tdhTriggerType (w : Bytes) : Nat := tdhW0 w % 4096
def tdhInternal (w : Bytes) : Nat := tdhW0 w / 4096 % 2
def tdhNoData (w : Bytes) : Nat := tdhW0 w / 8192 % 2
def tdhContinuation (w : Bytes) : Nat := tdhW0 w / 16384 % 2
def tdhReserved2 (w : Bytes) : Nat := tdhW0 w / 32768 % 2
def tdhBc (w : Bytes) : Nat := leField w 2 2 % 4096
def tdhReserved1 (w : Bytes) : Nat := leField w 2 2 / 4096
def tdhOrbit (w : Bytes) : Nat := leField w 4 4
def tdhReserved0 (w : Bytes) : Nat := bAt w 8
def tdhReservedZero (w : Bytes) : Bool :=
  tdhReserved0 w == 0 && tdhReserved1 w == 0 && tdhReserved2 w == 0
def tdhSane (w : Bytes) : Bool :=
  wordId w == ID_TDH && tdhReservedZero w && !(tdhTriggerType w == 0 && tdhInternal w == 0)

/-! ### TDT -/
def tdtPacketDone (w : Bytes) : Bool := bAt w 8 % 2 == 1
def tdtReservedZero (w : Bytes) : Bool :=
  bAt w 8 / 16 == 0 && bAt w 8 / 4 % 2 == 0 && bAt w 7 % 32 == 0
def tdtSane (w : Bytes) : Bool := wordId w == ID_TDT && tdtReservedZero w

/-! ### DDW0 -/
def ddw0Index (w : Bytes) : Nat := bAt w 8 / 16
def ddw0ReservedZero (w : Bytes) : Bool :=
  bAt w 8 / 4 % 2 == 0 && bAt w 8 % 2 == 0 && bAt w 7 == 0
def ddw0Sane (w : Bytes) : Bool := wordId w == ID_DDW0 && ddw0ReservedZero w && ddw0Index w == 0

/-! ### CDW -/
def cdwUserFields (w : Bytes) : Nat := leField w 0 6
def cdwIndex (w : Bytes) : Nat := bAt w 8 * 65536 + leField w 6 2

/-! ### data words -/
def inRange (lo hi x : Nat) : Bool := lo ≤ x && x ≤ hi
def isIlId (id : Nat) : Bool := inRange 0x20 0x28 id
def isMlId (id : Nat) : Bool :=
  inRange 0x43 0x46 id || inRange 0x48 0x4B id || inRange 0x53 0x56 id || inRange 0x58 0x5B id
def isOlId (id : Nat) : Bool :=
  inRange 0x40 0x46 id || inRange 0x48 0x4E id || inRange 0x50 0x56 id || inRange 0x58 0x5E id
/-- `DataWordSanityChecker::is_valid_any_id` -/
def isValidDataId (id : Nat) : Bool := isIlId id || isMlId id || isOlId id
/-- the ID pattern the state machine accepts as a data word (same set, written as in the FSM) -/
def isFsmDataId (id : Nat) : Bool :=
  inRange 0x20 0x28 id || inRange 0x40 0x46 id || inRange 0x48 0x4E id ||
  inRange 0x50 0x56 id || inRange 0x58 0x5E id

/-- `ob_data_word_id_to_lane` (u8 arithmetic; `%` by the range start) -/
def obLane (id : Nat) : Nat :=
  if id ≤ 0x46 then id % 0x40
  else if id ≤ 0x4E then 7 + id % 0x48
  else if id ≤ 0x56 then 14 + id % 0x50
  else 21 + id % 0x58
def ibLane (id : Nat) : Nat := id % 32
def obConnectorInput (id : Nat) : Nat := id % 8
/-- `is_lane_active`: `active_lanes & (1u32 << lane) != 0`; release profile: the shift amount is
    taken modulo 32 (reachable only for the invalid OB ids 0x47/0x4F/0x57 whose "lane" is ≥ 32) -/
def laneActive (lane lanes : Nat) : Bool := lanes / 2^(lane % 32) % 2 == 1

/-- codes reported for a word handled as a *data word* by `preprocess_data_word`
    (the non-CDW branch), given the active lanes of the governing IHW and whether running
    checks are enabled. Order as emitted. -/
def dataWordCodes (running : Bool) (lanes : Nat) (w : Bytes) : List String :=
  let id := wordId w
  (if isValidDataId id then [] else ["E70"]) ++
  (if !running then []
   else if id / 32 == 1 then
     (if laneActive (ibLane id) lanes then [] else ["E72"])
   else if id / 32 == 2 then
     (if laneActive (obLane id) lanes then [] else ["E71"]) ++
     (if obConnectorInput id > 6 then ["E73"] else [])
   else [])

end FastPasta
