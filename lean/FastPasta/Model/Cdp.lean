/-
  Model.Cdp — per-link ITS payload validation (CdpRunningValidator) and the RDH validators,
  combined into the per-link step of `LinkValidator::do_checks`.
  Mirrors analyze/validators/{link_validator,rdh,rdh_running}.rs and
  analyze/validators/its/{lib,cdp_running,cdp_running/*,status_word/*}.rs.
-/
import FastPasta.Model.Rdh
import FastPasta.Model.Preprocess
import FastPasta.Model.Fsm
import FastPasta.Model.Alpide
namespace FastPasta

/-- what the user asked for (only the parts the validators look at) -/
inductive Target | none | its | itsStave
  deriving DecidableEq, Repr, Inhabited

structure CheckCfg where
  running : Bool := false              -- `check all` (true) / `check sanity` (false)
  target : Target := .none
  customRdhVersion : Option Nat := none
  triggerPeriod : Option Nat := none
  alpide : AlpideCfg := {}
  deriving Repr, Inhabited

def CheckCfg.itsChecks (c : CheckCfg) : Bool := c.target != .none
def CheckCfg.stave (c : CheckCfg) : Bool := c.target == .itsStave

/-- a finding: byte offset, error code ("E10", … ; "PAYLOAD" for the code-less payload error),
    and the ten quoted word bytes when the message carries a word dump -/
structure Finding where
  offset : Nat
  code : String
  word : Option Bytes := none
  nested : List String := []      -- codes quoted inside the message (lane errors E9003..E9005)
  fee : Option Nat := none        -- "FEE ID:<n>" carried by frame-level messages
  deriving DecidableEq, Repr, Inhabited

inductive Msg
  | error (f : Finding)
  | alpideStats (s : AlpideStats)
  deriving Repr, Inhabited

/-! ### RDH sanity (rdh.rs) -/

def feeIdBad (fee : Nat) : Bool :=
  fee / 32768 % 2 != 0 || fee / 1024 % 4 != 0 || fee / 64 % 4 != 0 ||
  fee % 64 > 47 || fee / 4096 % 8 > 6

def rdh0Bad (expectId : Nat) (sysId : Option Nat) (r : Rdh) : Bool :=
  r.headerId != expectId || r.headerSize != 0x40 || feeIdBad r.feeId || r.priority != 0 ||
  (match sysId with | some s => r.systemId != s | none => false) || r.reserved0 != 0
def rdh1Bad (r : Rdh) : Bool := r.rdh1Reserved != 0 || r.bc > 0xdeb
def rdh2Bad (r : Rdh) : Bool :=
  r.rdh2Reserved != 0 || r.stopBit > 1 || r.triggerType == 0 || r.triggerType / 2^15 % 2^12 != 0
def rdh3Bad (r : Rdh) : Bool := r.rdh3Reserved != 0 || r.detectorField / 2^12 % 2^12 != 0

/-- `RdhCruSanityValidator::sanity_check`: state = expected header id (learnt from the first
    header unless a custom RDH version is configured) -/
def rdhSanityBad (expectId : Nat) (sysId : Option Nat) (r : Rdh) : Bool :=
  rdh0Bad expectId sysId r || rdh1Bad r || rdh2Bad r || rdh3Bad r || r.dw > 1 || r.dataFormat > 2

/-! ### RDH running (rdh_running.rs) -/

structure RunSt where
  expectPage : Nat := 0
  seen : Nat := 0          -- 0, 1, ≥2 headers seen (first/second stored)
  increment : Nat := 1
  last : Option Rdh := none
  deriving Repr, Inhabited

/-- returns the new state and whether `[E11]` is reported -/
def runningStep (s : RunSt) (r : Rdh) : RunSt × Bool :=
  let inc := if s.seen == 1 then r.pagesCounter else s.increment
  let (expect', e1) :=
    if r.stopBit == 0 then ((s.expectPage + inc) % 65536, r.pagesCounter != s.expectPage)
    else if r.stopBit == 1 then (0, r.pagesCounter != s.expectPage)
    else (s.expectPage, true)
  let e2 := match s.last with
    | some l => l.stopBit == 1 && l.orbit == r.orbit
    | none => false
  let e3 := r.pagesCounter != 0 && (match s.last with
    | some l => r.orbit != l.orbit || r.triggerType != l.triggerType || r.feeId != l.feeId
    | none => false)
  ({ expectPage := expect', seen := if s.seen < 2 then s.seen + 1 else 2, increment := inc,
     last := some r }, e1 || e2 || e3)

/-! ### readout frame (stave mode) -/

structure Frame where
  start : Nat
  lanes : LaneFrames := []
  deriving Repr, Inhabited

structure CdpSt where
  fsm : FsmSt := .initialIhw
  -- tracker
  payloadPos : Nat := 0
  wordCount : Nat := 0
  slot : Nat := 10
  startOfData : Bool := true
  rdh : Rdh := default
  -- status words
  ihw : Option Bytes := none
  tdh : Option Bytes := none
  prevTdh : Option Bytes := none
  prevInternalTdh : Option Bytes := none
  tdt : Option Bytes := none
  ddw0 : Option Bytes := none
  cdw : Option Bytes := none
  -- readout frame validator
  frame : Option Frame := none
  inFrame : Bool := false
  barrel : Option Barrel := none
  fatalLanes : Option (List Nat) := none
  deriving Repr, Inhabited

/-- `CdpTracker::current_word_mem_pos` (word counter already incremented) -/
def CdpSt.wordPos (s : CdpSt) : Nat := s.payloadPos + (s.wordCount - 1) * s.slot

def mkErr (s : CdpSt) (code : String) (w : Bytes) : Msg :=
  .error { offset := s.wordPos, code := code, word := some w }
def mkErrNoWord (off : Nat) (code : String) : Msg :=
  .error { offset := off, code := code, word := none }
/-- frame-level message: carries "FEE ID:<fee>" and possibly nested lane codes -/
def mkErrFrame (off : Nat) (code : String) (fee : Nat) (nested : List String := []) : Msg :=
  .error { offset := off, code := code, word := none, nested := nested, fee := some fee }

/-- `TdhBuffer::replace` -/
def replaceTdh (s : CdpSt) (w : Bytes) : CdpSt :=
  { s with tdh := some w, prevTdh := s.tdh,
           prevInternalTdh := match s.tdh with
             | some old => if tdhInternal old == 1 then some old else s.prevInternalTdh
             | none => s.prevInternalTdh }

/-- `preprocess_tdh` -/
def preTdh (cfg : CheckCfg) (s : CdpSt) (w : Bytes) : CdpSt × List Msg :=
  let ms := if tdhSane w then [] else [mkErr s "E40" w]
  let s := replaceTdh s w
  if cfg.stave && !s.inFrame && tdhContinuation w == 0 then
    ({ s with frame := some { start := s.wordPos }, inFrame := true }, ms)
  else (s, ms)

/-- `process_readout_frame` -/
def processFrame (cfg : CheckCfg) (s : CdpSt) : Except PanicSite (CdpSt × List Msg) :=
  let s := { s with inFrame := false }
  match s.frame with
  | none => .ok (s, [mkErrNoWord s.wordPos "E59"])
  | some f =>
    let s := { s with frame := none }
    if f.lanes.isEmpty then .ok (s, [mkErrFrame f.start "E701" s.rdh.feeId]) else
    match s.barrel with
    | none => .error .invalidLayer
    | some barrel =>
      let res := checkAlpideFrame cfg.alpide barrel f.lanes
      let fatal := if res.newFatal.isEmpty then s.fatalLanes
                   else some (s.fatalLanes.getD [] ++ res.newFatal)
      let s := { s with fatalLanes := fatal }
      let valid := frameLanesValid barrel f.lanes fatal
      let m1 := if valid then [] else
        [mkErrFrame f.start (if barrel == .inner then "E72" else "E73") s.rdh.feeId]
      let m2 := [Msg.alpideStats res.stats]
      let m3 := if res.laneErrorCount == 0 then [] else
        [mkErrFrame f.start (if barrel == .inner then "E74" else "E75") s.rdh.feeId
          (res.laneCodes.filter (· != "BC"))]
      .ok (s, m1 ++ m2 ++ m3)

/-- `preprocess_tdt` -/
def preTdt (cfg : CheckCfg) (s : CdpSt) (w : Bytes) : Except PanicSite (CdpSt × List Msg) :=
  let ms := if tdtSane w then [] else [mkErr s "E50" w]
  let s := { s with tdt := some w }
  if cfg.stave && tdtPacketDone w then
    match processFrame cfg s with
    | .error p => .error p
    | .ok (s, ms2) => .ok (s, ms ++ ms2)
  else .ok (s, ms)

def preIhw (s : CdpSt) (w : Bytes) : CdpSt × List Msg :=
  ({ s with ihw := some w }, if ihwSane w then [] else [mkErr s "E30" w])

def preDdw0 (cfg : CheckCfg) (s : CdpSt) (w : Bytes) : CdpSt × List Msg :=
  let m1 := if ddw0Sane w then [] else [mkErr s "E60" w]
  let m2 := if !cfg.running then [] else
    (if s.rdh.stopBit != 1 then [mkErr s "E110" w] else []) ++
    (if s.rdh.pagesCounter == 0 then [mkErr s "E111" w] else [])
  ({ s with ddw0 := some w }, m1 ++ m2)

/-- `preprocess_data_word` (data words and CDWs, also the E991 fallback) -/
def preData (cfg : CheckCfg) (s : CdpSt) (w : Bytes) : Except PanicSite (CdpSt × List Msg) :=
  let id := wordId w
  if s.startOfData && id == ID_CDW then
    -- process_cdw
    if !cfg.running then .ok ({ s with startOfData := false }, []) else
    let bad := match s.cdw with
      | some prev => cdwUserFields prev != cdwUserFields w && cdwIndex w != 0
      | none => false
    .ok ({ s with cdw := some w, startOfData := false }, if bad then [mkErr s "E81" w] else [])
  else
    let m1 := if isValidDataId id then [] else [mkErr s "E70" w]
    let s' := { s with startOfData := false }
    if !cfg.running || (id / 32 != 1 && id / 32 != 2) then .ok (s', m1) else
    match s.ihw with
    | none => .error .ihwMissing
    | some ihw =>
      let lanes := ihwActiveLanes ihw
      let m2 :=
        if id / 32 == 1 then
          (if laneActive (ibLane id) lanes then [] else [mkErr s "E72" w])
        else
          (if laneActive (obLane id) lanes then [] else [mkErr s "E71" w]) ++
          (if obConnectorInput id > 6 then [mkErr s "E73" w] else [])
      if !cfg.stave then .ok (s', m1 ++ m2) else
      -- store_lane_data
      match s.frame, s.barrel with
      | none, _ => .ok (s', m1 ++ m2)   -- no open frame: the data is not stored (reported by E59 later)
      | some _, none => .error .invalidLayer
      | some f, some _ =>
        .ok ({ s' with frame := some { f with lanes := storeLane f.lanes id (w.take 9) } }, m1 ++ m2)

/-- `matches_trigger_interval` in `u16` arithmetic (release profile: wraps) -/
def detectedPeriod (cur prev : Nat) : Nat :=
  if cur < prev then ((3563 + 65536 - prev + 1) % 65536 + cur) % 65536 else cur - prev

def tdhTriggerInterval (cfg : CheckCfg) (s : CdpSt) : List Msg :=
  match cfg.triggerPeriod, s.prevInternalTdh, s.tdh with
  | some p, some prev, some cur =>
    if tdhInternal cur == 1 && detectedPeriod (tdhBc cur) (tdhBc prev) != p
    then [mkErrNoWord s.wordPos "E45"] else []
  | _, _, _ => []

def tdhNoContinuationChecks (s : CdpSt) (w : Bytes) : List Msg :=
  (if tdhContinuation w != 0 then [mkErr s "E42" w] else []) ++
  (if tdhOrbit w != s.rdh.orbit then [mkErr s "E444" w] else []) ++
  (if s.rdh.pagesCounter == 0 && (tdhInternal w == 1 || s.rdh.isPht) then
    (if tdhBc w != s.rdh.bc then [mkErr s "E445" w] else []) ++
    (if s.rdh.triggerType % 4096 != tdhTriggerType w then [mkErr s "E44" w] else [])
   else [])

def tdhContinuationChecks (s : CdpSt) (w : Bytes) : List Msg :=
  (if tdhContinuation w != 1 then [mkErr s "E41" w] else []) ++
  (match s.prevTdh with
   | some prev =>
     (if tdhBc w != tdhBc prev then [mkErr s "E441" w] else []) ++
     (if tdhOrbit w != tdhOrbit prev then [mkErr s "E442" w] else []) ++
     (if tdhTriggerType w != tdhTriggerType prev then [mkErr s "E443" w] else [])
   | none => [])

/-- `CdpRunningValidator::check(gbt_word)` -/
def checkWord (cfg : CheckCfg) (s : CdpSt) (w : Bytes) : Except PanicSite (CdpSt × List Msg) :=
  let s := { s with wordCount := s.wordCount + 1 }
  let (st', cls) := fsmAdvance s.fsm w
  let s := { s with fsm := st' }
  match cls with
  | .dataWord | .cdw => preData cfg s w
  | .tdh =>
    let (s, m) := preTdh cfg s w
    .ok (s, m ++ (if cfg.running then tdhNoContinuationChecks s w ++ tdhTriggerInterval cfg s else []))
  | .tdt => preTdt cfg s w
  | .ihw =>
    let (s, m) := preIhw s w
    .ok (s, m ++ (if cfg.running && s.rdh.stopBit != 0 then [mkErr s "E12" w] else []))
  | .tdhAfterPacketDone =>
    let (s, m) := preTdh cfg s w
    let m2 := if !cfg.running then [] else
      (match s.prevTdh with
       | some prev => if tdhBc prev > tdhBc w then [mkErr s "E440" w] else []
       | none => []) ++ tdhTriggerInterval cfg s
    .ok (s, m ++ m2)
  | .ddw0 => .ok (preDdw0 cfg s w)
  | .tdhCont =>
    let (s, m) := preTdh cfg s w
    .ok (s, m ++ (if cfg.running then tdhContinuationChecks s w else []))
  | .ihwCont => .ok (preIhw s w)
  | .errTdhOrDdw0 =>
    let (s', m) := preTdh cfg s w
    .ok (s', mkErr s "E990" w :: m)
  | .errDwOrTdtCdw =>
    match preData cfg s w with
    | .error p => .error p
    | .ok (s', m) => .ok (s', mkErr s "E991" w :: m)
  | .errDdw0OrTdhIhw =>
    let (s', m) := preDdw0 cfg s w
    .ok (s', mkErr s "E992" w :: m)

def checkWords (cfg : CheckCfg) : CdpSt → List Bytes → Except PanicSite (CdpSt × List Msg)
  | s, [] => .ok (s, [])
  | s, w :: ws =>
    match checkWord cfg s w with
    | .error p => .error p
    | .ok (s1, m1) =>
      match checkWords cfg s1 ws with
      | .error p => .error p
      | .ok (s2, m2) => .ok (s2, m1 ++ m2)

/-- `set_current_rdh`: a new tracker for the packet; in stave mode the barrel is determined from
    the FEE ID of the first packet the validator sees (`Stave::from_feeid` panics for layer 7) -/
def setCurrentRdh (cfg : CheckCfg) (s : CdpSt) (off : Nat) (r : Rdh) : Except PanicSite CdpSt :=
  let s := { s with payloadPos := off + 64, wordCount := 0,
                    slot := if r.dataFormat == 0 then 16 else 10, startOfData := true, rdh := r }
  if cfg.stave && s.barrel.isNone then
    match barrelOfFee r.feeId with
    | none => .error .invalidLayer
    | some b => .ok { s with barrel := some b }
  else .ok s

/-- `do_payload_checks`: set the current RDH, cut, check every word (or report the padding
    error and reset the state machine) -/
def payloadChecks (cfg : CheckCfg) (s : CdpSt) (off : Nat) (r : Rdh) (payload : Bytes) :
    Except PanicSite (CdpSt × List Msg) :=
  match setCurrentRdh cfg s off r with
  | .error p => .error p
  | .ok s =>
    match cutPayload payload with
    | none => .ok ({ s with fsm := .initialIhw }, [mkErrNoWord off "PAYLOAD"])
    | some ws => checkWords cfg s ws

/-! ### the link validator -/

structure Packet where
  offset : Nat
  rdh : Rdh
  payload : Bytes
  deriving Repr, Inhabited

structure LinkSt where
  expectId : Option Nat := none       -- header id learnt by the RDH0 validator
  run : RunSt := {}
  cdp : CdpSt := {}
  deriving Repr, Inhabited

def LinkSt.init (cfg : CheckCfg) : LinkSt := { expectId := cfg.customRdhVersion }

/-- `LinkValidator::do_checks` -/
def linkStep (cfg : CheckCfg) (s : LinkSt) (p : Packet) : Except PanicSite (LinkSt × List Msg) :=
  let expectId := s.expectId.getD p.rdh.headerId
  let sysId := if cfg.itsChecks then some 32 else none
  let m1 := if rdhSanityBad expectId sysId p.rdh then [mkErrNoWord p.offset "E10"] else []
  let (run', e11) := if cfg.running then runningStep s.run p.rdh else (s.run, false)
  let m2 := if e11 then [mkErrNoWord p.offset "E11"] else []
  let s1 := { s with expectId := some expectId, run := run' }
  if cfg.itsChecks && !p.payload.isEmpty then
    match payloadChecks cfg s.cdp p.offset p.rdh p.payload with
    | .error e => .error e
    | .ok (cdp', m3) => .ok ({ s1 with cdp := cdp' }, m1 ++ m2 ++ m3)
  else .ok (s1, m1 ++ m2)

def linkRun (cfg : CheckCfg) : LinkSt → List Packet → Except PanicSite (LinkSt × List Msg)
  | s, [] => .ok (s, [])
  | s, p :: ps =>
    match linkStep cfg s p with
    | .error e => .error e
    | .ok (s1, m1) =>
      match linkRun cfg s1 ps with
      | .error e => .error e
      | .ok (s2, m2) => .ok (s2, m1 ++ m2)

end FastPasta
