/-
  Model.ErrPrinter — the character-level error-code filter of `-w`
  (fastpasta/src/stats/err_printer.rs: `filter_error_msgs`, `match_error_code`).
  Messages and filter entries are `List Char` (the implementation iterates over `chars()`).
-/
namespace FastPasta

/-- `match_error_code` preceded by the `position(|c| c == '[')` of `filter_error_msgs`:
    find the first '[', skip one character (the 'E'; the `debug_assert` is not evaluated in the
    release profile), compare the filter's characters pairwise with what follows, and if all
    compared pairs are equal require the next character of the message to be ']'. -/
def matchErrorCode (msg filter : List Char) : Bool :=
  match msg.findIdx? (· == '[') with
  | none => false
  | some pos =>
    let msgChars := (msg.drop (pos + 1)).drop 1
    let pairs := filter.zip msgChars
    pairs.all (fun p => p.1 == p.2) && (msg[pos + 1 + pairs.length + 1]? == some ']')

/-- a message passes the filter if any (minified) filter entry matches -/
def passesFilter (msg : List Char) (filters : List (List Char)) : Bool :=
  filters.any (matchErrorCode msg)

end FastPasta
