/-
  Model.StatsCompare — comparison of the collected statistics with a statistics file
  (`StatsCollector::validate_other_stats`, the `validate_fields!` macro and the per-struct field
  lists in stats/stats_collector/{rdh_stats,trigger_stats,its_stats,error_stats,its_stats/alpide_stats}.rs).
-/
namespace FastPasta

/-- names of the 20 trigger counters, in struct order -/
def triggerNames : List String :=
  ["orbit", "hb", "hbr", "hc", "pht", "pp", "cal", "sot", "eot", "soc", "eoc", "tf", "fe_rst", "rt", "rs",
   "lhc_gap1", "lhc_gap2", "tpc_sync", "tpc_rst", "tof"]

/-- names of the 7 ALPIDE readout-flag counters -/
def alpideNames : List String :=
  ["chip_trailers_seen", "busy_violations", "data_overrun", "transmission_in_fatal", "flushed_incomplete",
   "strobe_extended", "busy_transitions"]

structure StatsRec where
  -- rdh_stats (top-level fields)
  rdhsSeen : Nat
  rdhsFiltered : Nat
  rdhVersion : Option Nat
  hbfsSeen : Nat
  payloadSize : Nat
  dataFormat : Option Nat
  links : List Nat
  feeId : List Nat
  systemId : Option String
  runTriggerType : Option (Nat × String)
  -- its_stats
  layerStavesSeen : List (Nat × Nat)
  -- trigger_stats
  trig : List Nat
  -- error_stats
  fatalError : Option String
  reportedErrors : List String
  customChecksStatsErrors : List String
  totalErrors : Nat
  uniqueErrorCodes : List String
  stavesWithErrors : Option (List (Nat × Nat))
  -- alpide_stats (only collected by `check all its-stave`)
  alpide : Option (List Nat)
  deriving DecidableEq, Repr

/-- one field of the `validate_fields!` macro: a mismatch message iff the values differ -/
def mism {α} [DecidableEq α] (name : String) (mine other : α) : List String :=
  if mine = other then [] else [name]

/-- counters compared name by name -/
def mismCounters : List String → List Nat → List Nat → List String
  | n :: ns, a :: as, b :: bs => mism n a b ++ mismCounters ns as bs
  | _, _, _ => []

/-- ALPIDE statistics: compared only when this run collects them -/
def alpideMism : Option (List Nat) → Option (List Nat) → List String
  | some a, some b => mismCounters alpideNames a b
  | some _, none => ["ALPIDE stats was collected but the input stats does not contain ALPIDE stats"]
  | none, _ => []

/-- `validate_other_stats`: the list of mismatch messages (empty = `Ok`) -/
def validateOther (mine other : StatsRec) : List String :=
  -- RdhStats::validate_other: its_stats, trigger_stats, then the top-level fields
  mism "layer_staves_seen" mine.layerStavesSeen other.layerStavesSeen ++
  mismCounters triggerNames mine.trig other.trig ++
  mism "rdhs_seen" mine.rdhsSeen other.rdhsSeen ++
  mism "rdhs_filtered" mine.rdhsFiltered other.rdhsFiltered ++
  mism "rdh_version" mine.rdhVersion other.rdhVersion ++
  mism "hbfs_seen" mine.hbfsSeen other.hbfsSeen ++
  mism "payload_size" mine.payloadSize other.payloadSize ++
  mism "data_format" mine.dataFormat other.dataFormat ++
  mism "links" mine.links other.links ++
  mism "fee_id" mine.feeId other.feeId ++
  mism "system_id" mine.systemId other.systemId ++
  mism "run_trigger_type" mine.runTriggerType other.runTriggerType ++
  -- ErrorStats::validate_other
  mism "fatal_error" mine.fatalError other.fatalError ++
  mism "reported_errors" mine.reportedErrors other.reportedErrors ++
  mism "custom_checks_stats_errors" mine.customChecksStatsErrors other.customChecksStatsErrors ++
  mism "total_errors" mine.totalErrors other.totalErrors ++
  mism "unique_error_codes" mine.uniqueErrorCodes other.uniqueErrorCodes ++
  mism "staves_with_errors" mine.stavesWithErrors other.stavesWithErrors ++
  alpideMism mine.alpide other.alpide

/-- all field names the comparison looks at (used by the correspondence check: every leaf of a
    statistics file actually written must be one of these) -/
def comparedLeafNames : List String :=
  ["layer_staves_seen"] ++ triggerNames ++
  ["rdhs_seen", "rdhs_filtered", "rdh_version", "hbfs_seen", "payload_size", "data_format", "links", "fee_id",
   "system_id", "run_trigger_type", "fatal_error", "reported_errors", "custom_checks_stats_errors", "total_errors",
   "unique_error_codes", "staves_with_errors"] ++ alpideNames

end FastPasta
