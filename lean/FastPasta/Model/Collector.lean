/-
  Model.Collector — the statistics collector as a fold over the *arrival sequence* of messages
  (controller.rs `update`, stats_collector.rs `collect`/`finalize`, error_stats.rs,
  rdh_stats.rs, trigger_stats.rs, err_printer.rs, stats_validation.rs, util/lib.rs `exit`).
-/
import FastPasta.Model.Dispatch
namespace FastPasta

inductive Stat
  | fatal (text : String)
  | error (f : Finding)
  | runTrigger (t : Nat) | triggerType (t : Nat) | systemId (s : Nat)
  | rdhSeen (n : Nat) | rdhFiltered (n : Nat) | payloadSize (n : Nat) | link (l : Nat)
  | rdhVersion (v : Nat) | dataFormat (f : Nat) | hbfs (n : Nat)
  | layerStave (l s : Nat) | feeId (f : Nat) | alpide (s : AlpideStats)
  deriving Repr, Inhabited

/-- bit positions of the 20 trigger-type counters of `TriggerStats` -/
def triggerBits : List Nat := [0,1,2,3,4,5,6,7,8,9,10,11,12,13,14,27,28,29,30,31]

structure Coll where
  rdhsSeen : Nat := 0
  rdhsFiltered : Nat := 0
  rdhVersion : Option Nat := none
  hbfs : Nat := 0
  payload : Nat := 0
  dataFormat : Option Nat := none
  links : List Nat := []
  fees : List Nat := []
  systemId : Option Nat := none
  runTrigger : Option Nat := none
  layerStaves : List (Nat × Nat) := []
  trig : Nat → Nat := fun _ => 0          -- bit index ↦ count (only `triggerBits` are reported)
  fatal : Option String := none
  errors : List Finding := []             -- reported_errors, arrival order
  total : Nat := 0
  alpide : Option AlpideStats := none
  stop : Bool := false                    -- end_processing_flag raised (fatal or error cap)

/-- `Controller::update` + `StatsCollector::collect`; `cap` = --max-tolerate-errors (0 = none) -/
def Coll.step (cap : Nat) (c : Coll) (m : Stat) : Coll :=
  match m with
  | .rdhSeen n => { c with rdhsSeen := c.rdhsSeen + n }
  | .rdhFiltered n => { c with rdhsFiltered := c.rdhsFiltered + n }
  | .payloadSize n => { c with payload := c.payload + n }
  | .hbfs n => { c with hbfs := c.hbfs + n }
  | .link l => { c with links := c.links ++ [l] }
  | .feeId f => if c.fees.contains f then c else { c with fees := c.fees ++ [f] }
  | .layerStave l s => if c.layerStaves.contains (l, s) then c else { c with layerStaves := c.layerStaves ++ [(l, s)] }
  | .rdhVersion v => { c with rdhVersion := some v }
  | .dataFormat f => { c with dataFormat := some f }
  | .systemId s => { c with systemId := some s }
  | .runTrigger t => { c with runTrigger := some t }
  | .triggerType t => { c with trig := fun k => c.trig k + t / 2^k % 2 }
  | .alpide s => { c with alpide := some ((c.alpide.getD {}).add s) }
  | .error f =>
    if c.fatal.isSome then c else
    let c := { c with errors := c.errors ++ [f], total := c.total + 1 }
    if cap > 0 && c.total == cap then { c with stop := true } else c
  | .fatal t => if c.fatal.isSome then c else { c with fatal := some t, stop := true }

def Coll.run (cap : Nat) (init : Coll) (ms : List Stat) : Coll := ms.foldl (Coll.step cap) init

/-- stable insertion sort by offset (the implementation: `sort_by_cached_key`, stable):
    an element is inserted after all elements with a key ≤ its own -/
def insertStable (f : Finding) : List Finding → List Finding
  | [] => [f]
  | g :: gs => if g.offset ≤ f.offset then g :: insertStable f gs else f :: g :: gs
def sortStable (l : List Finding) : List Finding := l.foldl (fun acc f => insertStable f acc) []

def dedupStr : List String → List String
  | [] => []
  | x :: xs => x :: (dedupStr xs).filter (· != x)

/-- all `[E…]` codes occurring in a message: its own code followed by the nested lane codes
    (the nested text is omitted by the implementation when errors are muted) -/
def Finding.codes (mute : Bool) (f : Finding) : List String :=
  (if f.code == "PAYLOAD" then [] else [f.code]) ++ (if mute then [] else f.nested)

structure Final where
  coll : Coll
  errors : List Finding            -- sorted
  customErrors : List String       -- codes of custom check errors (E9001, E9002)
  total : Nat
  uniqueCodes : List String

/-- custom checks on the collected statistics (stats_validation.rs) -/
def customStatErrors (cdps pht : Option Nat) (c : Coll) : List String :=
  (match cdps with | some n => if c.rdhsSeen != n then ["E9001"] else [] | none => []) ++
  (match pht with | some n => if c.trig 4 != n then ["E9002"] else [] | none => [])

def finalize (mute : Bool) (cdps pht : Option Nat) (c : Coll) : Final :=
  let custom := customStatErrors cdps pht c
  let errs := sortStable c.errors
  { coll := { c with links := sortNat c.links }, errors := errs, customErrors := custom,
    total := c.total + custom.length,
    uniqueCodes := dedupStr (errs.flatMap (Finding.codes mute) ++ custom) }

/-- what `ErrPrinter::print` shows: `filter` = -w codes, `cap` = -e N (0 = none).
    The fatal message and the custom check messages are chained after the reported errors. -/
inductive Shown | err (f : Finding) | fatal | custom (code : String)
  deriving Repr, Inhabited
def Shown.code : Shown → Option String
  | .err f => if f.code == "PAYLOAD" then none else some f.code
  | .fatal => none
  | .custom c => some c

def shownList (fin : Final) : List Shown :=
  fin.errors.map .err ++ (if fin.coll.fatal.isSome then [.fatal] else []) ++ fin.customErrors.map .custom

def displayed (mute : Bool) (filter : Option (List String)) (cap : Nat) (fin : Final) : List Shown :=
  if mute || fin.total == 0 then [] else
  let all := shownList fin
  let sel := match filter with
    | none => all
    | some codes =>
      let mini := codes.filter (fun c => fin.uniqueCodes.contains c)
      all.filter (fun s => match s.code with | some c => mini.contains c | none => false)
  if cap > 0 then sel.take cap else sel

/-- exit status (`init::run`, `util::exit`): `initErr` = reader/init failure (status 1) -/
def exitCode (initErr : Bool) (anyErrCode : Option Nat) (fin : Final) (statsMismatch : Bool) : Nat :=
  if initErr then 1 else
  match anyErrCode with
  | some n => if fin.total > 0 || fin.coll.fatal.isSome || statsMismatch then n else 0
  | none => 0

end FastPasta
