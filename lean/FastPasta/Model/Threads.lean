/-
  Model.Threads — the channel / stop-flag protocol of the pipeline as a data-independent
  transition system (alice_protocol_reader `spawn_reader`; fastpasta `process`, `spawn_analysis`,
  `ValidatorDispatcher`, `LinkValidator::run`, `spawn_writer`, the forwarder loop, `Controller::run`).

  Threads: reader R, consumer A (the analysis thread with its dispatcher, or the writer thread), `nv`
  validator threads (abstracted to their total queued work), the forwarder F (main thread) and the
  controller C. Channels: the bounded data channel R → A (capacity `cap`), the bounded validator
  channels A → V (total capacity `vcap`), the unbounded statistics channels (never block).
  The stop flag can be raised by the environment (signal) at any moment, and by the controller
  (fatal error / error cap) — both are the environment step `raiseStop` here, because the
  controller never blocks and may raise it at any point.
-/
namespace FastPasta

structure TState where
  input : Nat          -- batches the reader can still produce
  stop : Bool          -- the shared stop flag
  pending : Bool       -- reader holds a batch it is trying to send
  rAlive : Bool        -- reader thread running (holds the data sender and the scanner)
  q : Nat              -- batches in the data channel
  holding : Bool       -- consumer holds a batch it is dispatching / writing
  aLoop : Bool         -- consumer still in its receive loop
  aAlive : Bool        -- consumer thread running (holds the data receiver)
  vq : Nat             -- packets queued in validator channels (0 in writer mode)
  vClosed : Bool       -- validator channels closed (dispatcher dropped the senders)
  vAlive : Bool        -- validator threads running
  fAlive : Bool        -- forwarder loop running (ends when the scanner's sender is dropped)
  cAlive : Bool        -- controller running (ends when all statistics senders are dropped)
  deriving DecidableEq, Repr

structure TCfg where
  cap : Nat            -- data channel capacity (100)
  vcap : Nat           -- total validator channel capacity
  deriving Repr

def TState.init (batches : Nat) : TState :=
  { input := batches, stop := false, pending := false, rAlive := true, q := 0, holding := false, aLoop := true,
    aAlive := true, vq := 0, vClosed := false, vAlive := true, fAlive := true, cAlive := true }

/-- every thread has finished -/
def TState.allDone (s : TState) : Bool := !s.rAlive && !s.aAlive && !s.vAlive && !s.fAlive && !s.cAlive

/-- program steps (one thread advances) -/
inductive TStep (c : TCfg) : TState → TState → Prop
  | rRead (s) : s.rAlive = true → s.stop = false → s.pending = false → s.input > 0 →
      TStep c s { s with input := s.input - 1, pending := true }
  | rEnd (s) : s.rAlive = true → s.pending = false → (s.stop = true ∨ s.input = 0) →
      TStep c s { s with rAlive := false }                    -- loop condition false / short batch: thread returns
  | rSend (s) : s.rAlive = true → s.pending = true → s.aAlive = true → s.q < c.cap →
      TStep c s { s with q := s.q + 1, pending := false }
  | rSendFail (s) : s.rAlive = true → s.pending = true → s.aAlive = false →
      TStep c s { s with pending := false, rAlive := false }  -- all receivers dropped: send errs, break
  | aRecv (s) : s.aLoop = true → s.holding = false → s.stop = false → s.q > 0 →
      TStep c s { s with q := s.q - 1, holding := true }
  | aDispatch (s) : s.aLoop = true → s.holding = true → s.vq < c.vcap →
      TStep c s { s with holding := false, vq := s.vq + 1 }
  | aEnd (s) : s.aLoop = true → s.holding = false → (s.stop = true ∨ (s.q = 0 ∧ s.rAlive = false)) →
      TStep c s { s with aLoop := false, vClosed := true }     -- leaves the loop, drops the validator senders
  | vProc (s) : s.vAlive = true → s.vq > 0 → TStep c s { s with vq := s.vq - 1 }
  | vEnd (s) : s.vAlive = true → s.vClosed = true → s.vq = 0 → TStep c s { s with vAlive := false }
  | aExit (s) : s.aAlive = true → s.aLoop = false → s.vAlive = false →
      TStep c s { s with aAlive := false }                    -- joined the validators; drops the data receiver
  | fEnd (s) : s.fAlive = true → s.rAlive = false → TStep c s { s with fAlive := false }
  | cEnd (s) : s.cAlive = true → s.rAlive = false → s.aAlive = false → s.vAlive = false → s.fAlive = false →
      TStep c s { s with cAlive := false }

/-- environment step: a signal (or the controller on a fatal error / reached error cap) raises the
    stop flag, at any moment -/
inductive EnvStep : TState → TState → Prop
  | raiseStop (s) : EnvStep s { s with stop := true }

def b2n (b : Bool) : Nat := if b then 1 else 0

/-- remaining work: strictly decreases on every program step -/
def TState.measure (s : TState) : Nat :=
  6 * s.input + 5 * b2n s.pending + 4 * s.q + 3 * b2n s.holding + 2 * s.vq +
  b2n s.rAlive + b2n s.aLoop + b2n s.aAlive + b2n s.vAlive + b2n s.fAlive + b2n s.cAlive

/-- reachable-state invariant -/
structure TInv (c : TCfg) (s : TState) : Prop where
  pend : s.pending = true → s.rAlive = true
  hold : s.holding = true → s.aLoop = true
  loop : s.aLoop = true → s.aAlive = true ∧ s.vClosed = false ∧ s.vAlive = true
  closed : s.vClosed = true → s.aLoop = false
  loopEnd : s.aLoop = false → s.vClosed = true
  vdead : s.vAlive = false → s.vClosed = true ∧ s.vq = 0
  adead : s.aAlive = false → s.aLoop = false ∧ s.vAlive = false
  fdead : s.fAlive = false → s.rAlive = false
  cdead : s.cAlive = false → s.rAlive = false ∧ s.aAlive = false ∧ s.vAlive = false ∧ s.fAlive = false

end FastPasta
