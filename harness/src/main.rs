//! fp_harness — runs the *implementation* (fastpasta / alice_protocol_reader, in-process through
//! their public API) on the requests of the correspondence line protocol. One request per
//! line on stdin, one canonical reply line on stdout — the same protocol the Lean driver
//! (`fpdriver`) speaks, so the two output streams can be diffed.
//!
//! Usage: fp_harness [-- <fastpasta command line used to initialise the global config>]
use alice_protocol_reader::prelude::*;
use fastpasta::analyze::validators::its::its_payload_fsm_cont::ItsPayloadFsmContinuous;
use fastpasta::analyze::validators::its::lib::ItsPayloadWord;
use fastpasta::analyze::validators::its::status_word::StatusWordSanityChecker;
use fastpasta::analyze::validators::lib::preprocess_payload;
use fastpasta::analyze::validators::link_validator::LinkValidator;
use fastpasta::analyze::validators::rdh::{RdhCruSanityValidator, SpecializeChecks};
use fastpasta::analyze::validators::rdh_running::RdhCruRunningChecker;
use fastpasta::config::Cfg;
use fastpasta::stats::StatType;
use fastpasta::words::its::status_words::{ddw::Ddw0, ihw::Ihw, tdh::Tdh, tdt::Tdt, StatusWord};
use std::io::{BufRead, Write};

fn parse_hex(s: &str) -> Option<Vec<u8>> {
    if s == "-" {
        return Some(vec![]);
    }
    if s.len() % 2 != 0 {
        return None;
    }
    (0..s.len())
        .step_by(2)
        .map(|i| u8::from_str_radix(&s[i..i + 2], 16).ok())
        .collect()
}
fn to_hex(b: &[u8]) -> String {
    b.iter().map(|x| format!("{x:02X}")).collect()
}

fn rdh_from(bytes: &[u8]) -> RdhCru {
    RdhCru::load(&mut &bytes[..]).unwrap()
}

fn class_name(r: &Result<ItsPayloadWord, fastpasta::analyze::validators::its::its_payload_fsm_cont::AmbigiousError>) -> &'static str {
    use fastpasta::analyze::validators::its::its_payload_fsm_cont::AmbigiousError as A;
    match r {
        Ok(ItsPayloadWord::IHW) => "IHW",
        Ok(ItsPayloadWord::IHW_continuation) => "IHW_continuation",
        Ok(ItsPayloadWord::TDH) => "TDH",
        Ok(ItsPayloadWord::TDH_continuation) => "TDH_continuation",
        Ok(ItsPayloadWord::TDH_after_packet_done) => "TDH_after_packet_done",
        Ok(ItsPayloadWord::TDT) => "TDT",
        Ok(ItsPayloadWord::CDW) => "CDW",
        Ok(ItsPayloadWord::DataWord) => "DataWord",
        Ok(ItsPayloadWord::DDW0) => "DDW0",
        Err(A::TDH_or_DDW0) => "ERR_TDH_or_DDW0",
        Err(A::DW_or_TDT_CDW) => "ERR_DW_or_TDT_CDW",
        Err(A::DDW0_or_TDH_IHW) => "ERR_DDW0_or_TDH_IHW",
    }
}

// canonical word sequences that drive the implementation FSM into each state id
fn path_to_state(id: u8) -> Vec<[u8; 10]> {
    let w = |b0: u8, b1: u8, b8: u8, id: u8| -> [u8; 10] { [b0, b1, 0, 0, 0, 0, 0, 0, b8, id] };
    let ihw = w(0, 0, 0, 0xE0);
    let tdh = w(1, 0, 0, 0xE8);
    let tdh_nodata = w(1, 0x20, 0, 0xE8);
    let dw = w(0, 0, 0, 0x20);
    let tdt0 = w(0, 0, 0, 0xF0);
    let tdt1 = w(0, 0, 1, 0xF0);
    let ddw0 = w(0, 0, 0, 0xE4);
    match id {
        0 => vec![],
        1 => vec![ihw],
        2 => vec![ihw, tdh_nodata],
        3 => vec![ihw, tdh],
        4 => vec![ihw, tdh, dw],
        5 => vec![ihw, tdh, tdt0],
        6 => vec![ihw, tdh, tdt0, ihw],
        7 => vec![ihw, tdh, tdt0, ihw, tdh],
        8 => vec![ihw, tdh, tdt0, ihw, tdh, dw],
        9 => vec![ihw, tdh, tdt1],
        10 => vec![ihw, tdh_nodata, ddw0],
        _ => vec![],
    }
}

fn canon_error(msg: &str) -> String {
    // "0x<OFF>: [E<code>] ... [b0 .. b9]"  ->  "<off dec>:E<code>:<wordhex|->"
    let re_off = regex::Regex::new(r"^0x([0-9A-F]+): ").unwrap();
    let re_code = regex::Regex::new(r"\[E([0-9]{2,4})\]").unwrap();
    let re_word = regex::Regex::new(r"\[([0-9A-F]{2}(?: [0-9A-F]{2}){9})\]").unwrap();
    let off = re_off
        .captures(msg)
        .map(|c| u64::from_str_radix(&c[1], 16).unwrap().to_string())
        .unwrap_or_else(|| "?".into());
    // the code must directly follow the offset prefix
    let code = match re_off.find(msg) {
        Some(m) => {
            let rest = &msg[m.end()..];
            match re_code.find(rest) {
                Some(c) if c.start() == 0 => format!("E{}", &rest[2..c.end() - 1]),
                _ => {
                    if rest.starts_with("Payload error") {
                        "PAYLOAD".to_string()
                    } else {
                        "?".to_string()
                    }
                }
            }
        }
        None => "?".into(),
    };
    // word dump: only for messages that end with the dump (word-level findings)
    let word = match re_word.captures_iter(msg).last() {
        Some(c) if msg.trim_end().ends_with(']') && code != "E10" && code != "E11" => c[1].replace(' ', ""),
        _ => "-".to_string(),
    };
    format!("{off}:{code}:{word}")
}

fn handle(line: &str, have_cfg: bool) -> String {
    let toks: Vec<&str> = line.trim().split(' ').collect();
    match toks.as_slice() {
        ["rdh", h] => {
            let Some(bs) = parse_hex(h) else { return "bad-op".into() };
            if bs.len() != 64 {
                return "bad-op".into();
            }
            let r = rdh_from(&bs);
            let (r0, r1, r2, r3) = (*r.rdh0(), *r.rdh1(), *r.rdh2(), *r.rdh3());
            let fields: Vec<u64> = vec![
                r0.header_id as u64,
                r0.header_size as u64,
                r.fee_id() as u64,
                r0.priority_bit as u64,
                r0.system_id as u64,
                { r0.reserved0 } as u64,
                r.offset_to_next() as u64,
                LittleEndianU16(&bs[10..12]),
                r.link_id() as u64,
                r.packet_counter() as u64,
                r.cru_id() as u64,
                r.dw() as u64,
                r1.bc() as u64,
                r1.reserved0() as u64,
                { r1.orbit } as u64,
                r.data_format() as u64,
                r.reserved0(),
                { r2.trigger_type } as u64,
                { r2.pages_counter } as u64,
                r2.stop_bit as u64,
                r2.reserved0 as u64,
                r.reserved1(),
                { r3.detector_field } as u64,
                { r3.par_bit } as u64,
                { r3.reserved0 } as u64,
                r.reserved2(),
                r.payload_size() as u64,
            ];
            let rt = if r.to_byte_slice() == &bs[..] { "rt=ok" } else { "rt=BAD" };
            format!(
                "{} {rt}",
                fields.iter().map(|x| x.to_string()).collect::<Vec<_>>().join(" ")
            )
        }
        ["rdhsane", its, first, subject] => {
            let (Some(f), Some(s)) = (parse_hex(first), parse_hex(subject)) else { return "bad-op".into() };
            let mut v: RdhCruSanityValidator<RdhCru> = if *its == "1" {
                RdhCruSanityValidator::with_specialization(SpecializeChecks::ITS)
            } else {
                RdhCruSanityValidator::new()
            };
            let _ = v.sanity_check(&rdh_from(&f));
            match v.sanity_check(&rdh_from(&s)) {
                Ok(()) => "ok".into(),
                Err(_) => "bad".into(),
            }
        }
        ["running", hs @ ..] => {
            let mut c: RdhCruRunningChecker<RdhCru> = RdhCruRunningChecker::new();
            let mut out = vec![];
            for h in hs {
                let Some(b) = parse_hex(h) else { return "bad-op".into() };
                out.push(if c.check(&rdh_from(&b)).is_err() { "1" } else { "0" });
            }
            out.join(" ")
        }
        ["sane", kind, h] => {
            let Some(w) = parse_hex(h) else { return "bad-op".into() };
            if w.len() != 10 {
                return "bad-op".into();
            }
            let ok = match *kind {
                "ihw" => StatusWordSanityChecker::check_ihw(&Ihw::load(&mut &w[..]).unwrap()).is_ok(),
                "tdh" => StatusWordSanityChecker::check_tdh(&Tdh::load(&mut &w[..]).unwrap()).is_ok(),
                "tdt" => StatusWordSanityChecker::check_tdt(&Tdt::load(&mut &w[..]).unwrap()).is_ok(),
                "ddw0" => StatusWordSanityChecker::check_ddw0(&Ddw0::load(&mut &w[..]).unwrap()).is_ok(),
                _ => return "bad-op".into(),
            };
            if ok { "ok".into() } else { "bad".into() }
        }
        ["data", running, lanes, h] => {
            use fastpasta::analyze::validators::its::data_words::{ib::IbDataWordValidator, ob::ObDataWordValidator, DataWordSanityChecker};
            let (Some(w), Ok(lanes)) = (parse_hex(h), lanes.parse::<u32>()) else { return "bad-op".into() };
            let mut codes: Vec<String> = vec![];
            if DataWordSanityChecker::check_any(&w).is_err() {
                codes.push("E70".into());
            }
            if *running == "1" {
                let id3 = w[9] >> 5;
                if id3 == 1 {
                    if IbDataWordValidator::check(&w, lanes).is_err() {
                        codes.push("E72".into());
                    }
                } else if id3 == 2 {
                    if let Err(es) = ObDataWordValidator::check(&w, lanes) {
                        for e in es {
                            codes.push(e[1..4].trim_end_matches(']').to_string());
                        }
                    }
                }
            }
            format!("{};", codes.join(","))
        }
        ["cut", h] => {
            let Some(p) = parse_hex(h) else { return "bad-op".into() };
            match preprocess_payload(&p) {
                Err(_) => "err".into(),
                Ok(chunks) => {
                    let ws: Vec<String> = chunks.map(|c| to_hex(&c[..10])).collect();
                    let mut out = vec![ws.len().to_string()];
                    out.extend(ws);
                    out.join(" ")
                }
            }
        }
        ["fsm", sid, h] => {
            let (Ok(sid), Some(w)) = (sid.parse::<u8>(), parse_hex(h)) else { return "bad-op".into() };
            if sid > 10 || w.len() != 10 {
                return "bad-op".into();
            }
            let mut fsm = ItsPayloadFsmContinuous::new();
            for pw in path_to_state(sid) {
                let _ = fsm.advance(&pw);
            }
            if fsm.verif_state_id() != sid {
                return format!("cannot-reach {sid}");
            }
            let r = fsm.advance(&w);
            format!("{} {}", fsm.verif_state_id(), class_name(&r))
        }
        ["link", rest @ ..] => {
            if !have_cfg {
                return "no-config".into();
            }
            let pos = rest.iter().position(|t| *t == "--").unwrap_or(rest.len());
            let pk = &rest[(pos + 1).min(rest.len())..];
            let (stat_send, stat_recv) = flume::unbounded::<StatType>();
            let (mut lv, cdp_send) = LinkValidator::<RdhCru, Cfg>::new(Cfg::global(), stat_send);
            for t in pk {
                let parts: Vec<&str> = t.split(':').collect();
                if parts.len() != 3 {
                    return "bad-op".into();
                }
                let (Ok(off), Some(rb), Some(pb)) = (parts[0].parse::<u64>(), parse_hex(parts[1]), parse_hex(parts[2])) else { return "bad-op".into() };
                cdp_send.send((rdh_from(&rb), pb, off)).unwrap();
            }
            drop(cdp_send);
            let res = std::panic::catch_unwind(std::panic::AssertUnwindSafe(|| lv.run()));
            drop(lv);
            if let Err(p) = res {
                let msg = p.downcast_ref::<String>().cloned().or_else(|| p.downcast_ref::<&str>().map(|s| s.to_string())).unwrap_or_default();
                return format!("PANIC {}", panic_site(&msg));
            }
            let mut errs = vec![];
            let mut a = [0u32; 7];
            for m in stat_recv.try_iter() {
                match m {
                    StatType::Error(e) => errs.push(canon_error(&e)),
                    StatType::AlpideStats(s) => {
                        let f = s.readout_flags();
                        a[0] += f.chip_trailers_seen();
                        a[1] += f.busy_violations();
                        a[2] += f.data_overrun();
                        a[3] += f.transmission_in_fatal();
                        a[4] += f.flushed_incomplete();
                        a[5] += f.strobe_extended();
                        a[6] += f.busy_transitions();
                    }
                    _ => {}
                }
            }
            format!(
                "OK alpide={} {}",
                a.iter().map(|x| x.to_string()).collect::<Vec<_>>().join(","),
                errs.join(" ")
            )
            .trim_end()
            .to_string()
                + if errs.is_empty() { " " } else { "" }
        }
        ["collect", rest @ ..] => {
            use fastpasta::stats::stats_collector::StatsCollector;
            let mute = rest.first() == Some(&"mute=1");
            let mut sc = StatsCollector::default();
            sc.collect(StatType::SystemId(fastpasta::stats::SystemId::ITS));
            for t in &rest[1..] {
                let p: Vec<&str> = t.split(':').collect();
                let n = |i: usize| p[i].parse::<u64>().unwrap_or(0);
                match p[0] {
                    "e" => sc.collect(StatType::Error(format!("{:#X}: [{}] tag={}", n(1), p[2], p[3]).into())),
                    "l" => sc.collect(StatType::LinksObserved(n(1) as u8)),
                    "f" => sc.collect(StatType::FeeId(n(1) as u16)),
                    "s" => sc.collect(StatType::LayerStaveSeen { layer: n(1) as u8, stave: n(2) as u8 }),
                    "t" => sc.collect(StatType::TriggerType(n(1) as u32)),
                    "h" => sc.collect(StatType::HBFsSeen(n(1) as u32)),
                    "r" => sc.collect(StatType::RDHSeen(n(1) as u32)),
                    "p" => sc.collect(StatType::PayloadSize(n(1) as u32)),
                    _ => return "bad-op".into(),
                }
            }
            sc.finalize(mute);
            let errs: Vec<String> = sc
                .error_stats()
                .errors_as_slice_iter()
                .map(|m| {
                    let c = canon_error(m);
                    let parts: Vec<&str> = c.split(':').collect();
                    let tag = m.split("tag=").nth(1).unwrap_or("");
                    format!("{}:{}:{}", parts[0], parts[1], tag)
                })
                .collect();
            let r = sc.rdh_stats();
            let t = r.trigger_stats();
            let trig = [t.orbit(), t.hb(), t.hbr(), t.hc(), t.pht(), t.pp(), t.cal(), t.sot(), t.eot(), t.soc(), t.eoc(), t.tf(), t.fe_rst(), t.rt(), t.rs(), t.lhc_gap1(), t.lhc_gap2(), t.tpc_sync(), t.tpc_rst(), t.tof()];
            format!(
                "errors={} links={} fees={} staves={} trig={} hbfs={} seen={} payload={} total={} codes={}",
                errs.join(","),
                r.links_as_slice().iter().map(|x| x.to_string()).collect::<Vec<_>>().join(","),
                r.fee_ids_as_slice().iter().map(|x| x.to_string()).collect::<Vec<_>>().join(","),
                r.layer_staves_as_slice().iter().map(|(a, b)| format!("{a}/{b}")).collect::<Vec<_>>().join(","),
                trig.iter().map(|x| x.to_string()).collect::<Vec<_>>().join(","),
                sc.hbfs_seen(),
                sc.rdhs_seen(),
                sc.payload_size(),
                sc.err_count(),
                sc.unique_error_codes_as_slice().iter().map(|c| format!("E{c}")).collect::<Vec<_>>().join(",")
            )
        }
        ["scan", rest @ ..] => {
            let mut filter = "-".to_string();
            let mut skip = false;
            let mut data: Vec<u8> = vec![];
            for t in rest {
                if let Some((k, v)) = t.split_once('=') {
                    match k {
                        "filter" => filter = v.to_string(),
                        "skip" => skip = v == "1",
                        "data" => data = match parse_hex(v) { Some(d) => d, None => return "bad-op".into() },
                        _ => {}
                    }
                }
            }
            scan_cmd(&filter, skip, &data)
        }
        _ => "bad-op".into(),
    }
}

#[allow(non_snake_case)]
fn LittleEndianU16(b: &[u8]) -> u64 {
    (b[0] as u64) | ((b[1] as u64) << 8)
}

struct HCfg {
    link: Option<u8>,
    fee: Option<u16>,
    stave: Option<u16>,
    skip: bool,
}
impl alice_protocol_reader::prelude::FilterOpt for HCfg {
    fn skip_payload(&self) -> bool {
        self.skip
    }
    fn filter_link(&self) -> Option<u8> {
        self.link
    }
    fn filter_fee(&self) -> Option<u16> {
        self.fee
    }
    fn filter_its_stave(&self) -> Option<u16> {
        self.stave
    }
}

/// the real reader thread (`spawn_reader`, batches of 100) on a temporary file, started the way
/// `init_processing` starts it (first 8 bytes read as RDH0 beforehand)
fn scan_cmd(filter: &str, skip: bool, data: &[u8]) -> String {
    use alice_protocol_reader::input_scanner::InputScanner;
    use alice_protocol_reader::stats::InputStatType;
    let mut cfg = HCfg { link: None, fee: None, stave: None, skip };
    if let Some((k, v)) = filter.split_once(':') {
        let n: u32 = v.parse().unwrap_or(0);
        match k {
            "link" => cfg.link = Some(n as u8),
            "fee" => cfg.fee = Some(n as u16),
            "stave" => cfg.stave = Some(n as u16),
            _ => {}
        }
    }
    let dir = std::env::temp_dir().join(format!("fp_harness_{}", std::process::id()));
    std::fs::create_dir_all(&dir).unwrap();
    let path = dir.join("scan.raw");
    std::fs::write(&path, data).unwrap();
    let mut reader = alice_protocol_reader::init_reader(Some(&path)).unwrap();
    let rdh0 = match alice_protocol_reader::rdh::Rdh0::load(&mut reader) {
        Ok(r) => r,
        Err(_) => return "n=0  | seen:0 filtered:0 payload:0".into(),
    };
    let (send, recv) = flume::unbounded::<InputStatType>();
    let scanner = InputScanner::new_from_rdh0(&cfg, reader, Some(send), rdh0);
    let stop = std::sync::Arc::new(std::sync::atomic::AtomicBool::new(false));
    let (handle, data_recv) = alice_protocol_reader::spawn_reader::<RdhCru, 100>(stop, scanner);
    let mut pk = vec![];
    while let Ok(batch) = data_recv.recv() {
        for (rdh, payload, off) in batch.into_iter() {
            let mut first4 = 0u64;
            for (i, b) in payload.iter().take(4).enumerate() {
                first4 |= (*b as u64) << (8 * i);
            }
            pk.push(format!("{}:{}:{}:{}", off, to_hex(rdh.to_byte_slice()), payload.len(), first4));
        }
    }
    handle.join().unwrap();
    let mut ms = vec![];
    for m in recv.try_iter() {
        ms.push(match m {
            InputStatType::Fatal(t) => {
                // "RDH offset to next is <d>. \n[0x<pos>]:..."
                let d = t.split("is ").nth(1).and_then(|x| x.split('.').next()).unwrap_or("?").to_string();
                let p = t.split("[0x").nth(1).and_then(|x| x.split(']').next()).and_then(|x| u64::from_str_radix(x, 16).ok()).map(|x| x.to_string()).unwrap_or("?".into());
                format!("fatal@{p}:{d}")
            }
            InputStatType::Error(e) => {
                let c = canon_error(&e);
                let parts: Vec<&str> = c.split(':').collect();
                format!("err@{}:{}", parts[0], parts[1])
            }
            InputStatType::RunTriggerType(t) => format!("runtrig:{t}"),
            InputStatType::DataFormat(f) => format!("df:{f}"),
            InputStatType::SystemId(s) => format!("sys:{s}"),
            InputStatType::LinksObserved(l) => format!("link:{l}"),
            InputStatType::FeeId(f) => format!("fee:{f}"),
            InputStatType::RDHSeen(n) => format!("seen:{n}"),
            InputStatType::RDHFiltered(n) => format!("filtered:{n}"),
            InputStatType::PayloadSize(n) => format!("payload:{n}"),
        });
    }
    let _ = std::fs::remove_file(&path);
    format!("n={} {} | {}", pk.len(), pk.join(" "), ms.join(" "))
}

fn panic_site(msg: &str) -> &'static str {
    if msg.contains("Invalid layer number") {
        "invalidLayer"
    } else if msg.contains("Invalid fatal lane number") {
        "fatalLaneGrouping"
    } else if msg.contains("called `Option::unwrap()` on a `None` value") {
        "unwrapNone"
    } else {
        "other"
    }
}

fn main() {
    let args: Vec<String> = std::env::args().collect();
    let mut have_cfg = false;
    if let Some(pos) = args.iter().position(|a| a == "--") {
        let mut cli = vec!["fastpasta".to_string()];
        cli.extend(args[pos + 1..].iter().cloned());
        let cfg = <Cfg as clap::Parser>::parse_from(cli);
        cfg.handle_custom_checks();
        fastpasta::config::CONFIG.set(cfg).ok();
        have_cfg = true;
    }
    std::panic::set_hook(Box::new(|_| {}));
    let stdin = std::io::stdin();
    let stdout = std::io::stdout();
    let mut out = std::io::BufWriter::new(stdout.lock());
    for line in stdin.lock().lines() {
        let line = line.unwrap();
        if line.is_empty() {
            continue;
        }
        let reply = std::panic::catch_unwind(|| handle(&line, have_cfg)).unwrap_or_else(|_| "PANIC harness".into());
        writeln!(out, "{}", reply.trim_end()).unwrap();
    }
    out.flush().unwrap();
}
