"""fpgen — generators for the correspondence check and the property oracles.

Everything random derives from one `random.Random(seed)` instance passed in by the caller, so a
disagreement replays exactly from (seed, case index).

The protocol grammar of DESIGN.md §5.1 is instantiated structurally: a stream is a list of
`Pkt` objects (RDH field dict + list of 10-byte words + trailing padding); `encode` turns it into
bytes. Faults (C02) and mutations operate on that structure.
"""
import struct, copy

# ---------------------------------------------------------------- words
ID_IHW, ID_TDH, ID_TDT, ID_DDW0, ID_CDW = 0xE0, 0xE8, 0xF0, 0xE4, 0xF8
IB_IDS = [0x20 + i for i in range(9)]
ML_IDS = [0x43, 0x44, 0x45, 0x46, 0x48, 0x49, 0x4A, 0x4B, 0x53, 0x54, 0x55, 0x56, 0x58, 0x59, 0x5A, 0x5B]
OL_IDS = [0x40 + i for i in range(7)] + [0x48 + i for i in range(7)] + [0x50 + i for i in range(7)] + [0x58 + i for i in range(7)]


def ob_lane(i):
    if i <= 0x46: return i % 0x40
    if i <= 0x4E: return 7 + i % 0x48
    if i <= 0x56: return 14 + i % 0x50
    return 21 + i % 0x58


def ihw(lanes): return struct.pack('<I', lanes) + b'\0' * 5 + b'\xE0'


def tdh(trig=0x003, internal=0, nodata=0, cont=0, bc=0, orbit=1):
    w0 = trig | internal << 12 | nodata << 13 | cont << 14
    return struct.pack('<HHI', w0, bc, orbit) + b'\0\xE8'


def tdt(done=1, lane_status=0): return struct.pack('<Q', lane_status)[:7] + b'\0' + bytes([done, 0xF0])


def ddw0(lane_status=0): return struct.pack('<Q', lane_status)[:7] + b'\0\0' + b'\xE4'


def cdw(user=0, index=0): return struct.pack('<Q', user)[:6] + struct.pack('<H', index & 0xFFFF) + bytes([(index >> 16) & 0xFF, 0xF8])


def dw(id, data):
    assert len(data) == 9
    return bytes(data) + bytes([id])


# ---------------------------------------------------------------- RDH
RDH_DEFAULT = dict(ver=7, hsize=0x40, fee=0x000c, prio=0, sysid=32, res0=0, off=None, size=None, link=0,
                   pkt=0, cru=0, dw=0, bc=0, res1=0, orbit=1, df=2, dfres=0, trig=0x6a03, page=0, stop=0,
                   res2=0, reserved1=0, det=0, par=0, res3=0, reserved2=0)


def rdh_bytes(f):
    b = bytes([f['ver'] & 0xFF, f['hsize'] & 0xFF]) + struct.pack('<H', f['fee'] & 0xFFFF) + bytes([f['prio'] & 0xFF, f['sysid'] & 0xFF]) + struct.pack('<H', f['res0'] & 0xFFFF)
    b += struct.pack('<HHBBH', f['off'] & 0xFFFF, f['size'] & 0xFFFF, f['link'] & 0xFF, f['pkt'] & 0xFF, (f['cru'] & 0xFFF) | ((f['dw'] & 0xF) << 12))
    b += struct.pack('<II', (f['bc'] & 0xFFF) | ((f['res1'] & 0xFFFFF) << 12), f['orbit'] & 0xFFFFFFFF)
    b += struct.pack('<Q', (f['df'] & 0xFF) | ((f['dfres'] & ((1 << 56) - 1)) << 8))
    b += struct.pack('<IHBB', f['trig'] & 0xFFFFFFFF, f['page'] & 0xFFFF, f['stop'] & 0xFF, f['res2'] & 0xFF)
    b += struct.pack('<Q', f['reserved1'])
    b += struct.pack('<IHH', f['det'] & 0xFFFFFFFF, f['par'] & 0xFFFF, f['res3'] & 0xFFFF)
    b += struct.pack('<Q', f['reserved2'])
    assert len(b) == 64
    return b


class Pkt:
    """one CDP: RDH fields, payload words, trailing bytes; `raw_payload` overrides words"""

    def __init__(self, rdh, words, fmt=2, pad=None, raw_payload=None):
        self.rdh = dict(RDH_DEFAULT); self.rdh.update(rdh)
        self.words = [bytes(w) for w in words]
        self.fmt = fmt
        self.pad = pad          # None = minimal padding to 16 bytes (format 2)
        self.raw_payload = raw_payload

    def payload(self):
        if self.raw_payload is not None:
            return bytes(self.raw_payload)
        if self.fmt == 0:
            return b''.join(w + b'\0' * 6 for w in self.words)
        p = b''.join(self.words)
        pad = (-len(p)) % 16 if self.pad is None else self.pad
        return p + b'\xff' * pad

    def slot(self): return 16 if self.fmt == 0 else 10

    def encode(self):
        p = self.payload()
        f = dict(self.rdh)
        if f['size'] is None: f['size'] = 64 + len(p)
        if f['off'] is None: f['off'] = f['size']
        return rdh_bytes(f) + p

    def size(self): return 64 + len(self.payload())

    def clone(self): return copy.deepcopy(self)


def encode(pkts): return b''.join(p.encode() for p in pkts)


def offsets(pkts):
    o, out = 0, []
    for p in pkts:
        out.append(o); o += p.size()
    return out


# ---------------------------------------------------------------- ALPIDE encoder (independent of the model)
ADV_HIT = [0x00, 0x00, 0x00, 0xB5, 0xBC, 0xB0, 0xA3, 0xE4, 0xF0, 0xF1, 0xFF, 0xC7]      # hit bytes that look like control words


def alp_chip(R, cid, bc, nhits, empty=False, flags=None, adv=False, min_bytes=0):
    """`adv`: the free bytes of the hits (pixel address, hit map) are drawn from values that look like ALPIDE control words or
    padding — legal hit content, and what a decoder or a storage layer that looks at bytes out of context trips over"""
    if empty: return bytes([0xE0 | cid, bc])
    b = bytearray([0xA0 | cid, bc])
    for r in range(R.randint(0, 6)):
        b.append(0xC0 | R.randint(0, 31))
        for h in range(R.randint(0, nhits)):
            addr = R.choice(ADV_HIT) if adv else R.randint(0, 255)
            if R.random() < 0.5: b += bytes([0x40 | R.randint(0, 0x3F), addr])
            else: b += bytes([R.randint(0, 0x3F), addr, R.choice([0x00, 0x00, 0x7F, 0x20]) if adv else R.randint(0, 0x7F)])
    while len(b) < min_bytes:          # a very long hit list (thousands of bytes in one lane of one frame)
        b.append(0xC0 | R.randint(0, 31))
        for h in range(200):
            addr = R.choice(ADV_HIT) if adv else R.randint(0, 255)
            if R.random() < 0.5: b += bytes([0x40 | R.randint(0, 0x3F), addr])
            else: b += bytes([R.randint(0, 0x3F), addr, R.choice([0x00, 0x00, 0x7F, 0x20]) if adv else R.randint(0, 0x7F)])
    b.append(0xB0 | (R.choice([0, 0, 0, 1, 2, 4, 8, 12, 14, 3, 5, 7]) if flags is None else flags))
    if R.random() < 0.2: b.append(R.choice([0xF0, 0xF1]))
    return bytes(b)


def lane_bytes(R, kind, lane_id, bc):
    if kind == 'IB':
        return alp_chip(R, lane_id & 0x1F, bc, 12, empty=R.random() < 0.2)
    out = b''
    base = R.choice([0, 8])
    for c in range(7):
        out += alp_chip(R, base + c, bc, 2, empty=R.random() < 0.3)
        if R.random() < 0.2: out += b'\0' * R.randint(1, 3)
    return out


def chunk9(b):
    b = b + b'\0' * ((-len(b)) % 9)
    return [b[i:i + 9] for i in range(0, len(b), 9)]


# ---------------------------------------------------------------- conforming streams
class Link:
    def __init__(s, R, link, layer, stave, df, ver):
        s.R = R; s.link = link; s.df = df; s.ver = ver; s.layer = layer; s.stave = stave
        s.kind = 'IB' if layer <= 2 else ('ML' if layer <= 4 else 'OL')
        s.fee = (layer << 12) | stave | (R.randint(0, 3) << 8)
        if s.kind == 'IB':
            g = R.choice([0, 3, 6]); s.ids = [0x20 + g + i for i in range(3)]
            s.lanes = sum(1 << (i & 0x1F) for i in s.ids)
        elif s.kind == 'ML':
            s.ids = ML_IDS[:8] if R.random() < 0.5 else ML_IDS[8:]
            s.lanes = sum(1 << ob_lane(i) for i in s.ids)
        else:
            s.ids = OL_IDS[:14] if R.random() < 0.5 else OL_IDS[14:]
            s.lanes = sum(1 << ob_lane(i) for i in s.ids)
        s.orbit = R.randint(1, 1 << 31); s.pkt = 0

    def hbf(s, max_trig=4, hits=True):
        """one heartbeat frame: list of Pkt (pages 0..k-1, then the stop page with DDW0)"""
        R = s.R
        s.orbit += R.randint(1, 5)
        orbit = s.orbit
        tt = R.choice([0x6a03, 0x6003, 0x4813, 0x4893, 0x6803, 0x0003, 0x80000003, 0x08000013])
        rbc = R.choice([0, 0, 0, 5, 0xdeb])
        det = R.choice([0, 0, 1, 2, 4, 8, 0x10, 0x20, 0xFC0, 0x1000000, 0x7000000, 0xF800000F])
        pages = []
        cur = [ihw(s.lanes)]
        first = True
        ntrig = R.randint(1, max_trig)
        bc = rbc
        # words per page: small pages, and pages that fill a complete 8 KiB CRU page exactly (payload 8128 bytes = 508 slots of
        # format 0 = 812 words + 8 bytes of padding in format 2), its neighbours, and arbitrary sizes up to the scanner's limit
        maxwords = R.choice([8, 20, 60, 511, 508, R.randint(3, 620)] if s.df == 0 else [8, 20, 60, 511, 812, 813, R.randint(3, 990)])
        for t in range(ntrig):
            internal = R.choice([0, 1]) if first else 1
            if first:
                w_tt = tt & 0xFFF; w_bc = rbc
            else:
                bc = min(bc + R.randint(0, 300), 3563)
                w_tt = R.choice([0x010, 0x001, 0x000]) if internal else 0x10
                w_bc = bc
            nodata = R.random() < 0.25
            if len(cur) >= maxwords - 1 and not first:
                pages.append(cur); cur = [ihw(s.lanes)]
            cur.append(tdh(trig=w_tt, internal=internal, nodata=int(nodata), cont=0, bc=w_bc, orbit=orbit))
            tdh_args = dict(trig=w_tt, internal=internal, bc=w_bc, orbit=orbit)
            first = False
            if nodata: continue
            fbc = R.randint(0, 255)
            words = []
            if R.random() < 0.3 and not any(w[9] not in (0xE0, 0xE8, 0xF0, 0xE4) for w in cur):
                words.append(cdw(user=R.getrandbits(48), index=0))
            streams = [(i, chunk9(lane_bytes(R, s.kind, i, fbc) if hits else alp_chip_min(s.kind, i, fbc))) for i in s.ids]
            while any(c for _, c in streams):
                for i, c in streams:
                    if c: words.append(dw(i, c.pop(0)))
            for w in words:
                if len(cur) >= maxwords - 1:
                    cur.append(tdt(0)); pages.append(cur)
                    cur = [ihw(s.lanes), tdh(nodata=0, cont=1, **tdh_args)]
                    if R.random() < 0.25:      # a CDW may open the data of any payload, also of a continuation page
                        cur.append(cdw(user=R.getrandbits(48), index=0))
                cur.append(w)
            cur.append(tdt(1))
        pages.append(cur)
        pages.append([ddw0()])
        out = []
        for p, ws in enumerate(pages):
            stop = 1 if p == len(pages) - 1 else 0
            out.append(Pkt(dict(fee=s.fee, link=s.link, orbit=orbit, bc=rbc, df=s.df, trig=tt, page=p, stop=stop,
                                det=det, ver=s.ver, pkt=s.pkt & 0xFF, cru=R.choice([0, 23, 0xFFF]), dw=R.choice([0, 1]),
                                par=R.choice([0, 0, 0xFFFF]), reserved1=0, reserved2=0),
                           ws, fmt=s.df))
            s.pkt += 1
        return out


def alp_chip_min(kind, lane_id, bc):
    if kind == 'IB':
        return bytes([0xE0 | (lane_id & 0xF), bc])
    return b''.join(bytes([0xE0 | c, bc]) for c in range(7))


def conforming_stream(R, nlinks=None, max_hbf=4, layers=None, df=None, ver=None, mode=None, hits=True, min_hbf=1):
    """returns (pkts, meta): a conforming multi-link stream as a list of Pkt in file order"""
    nl = nlinks if nlinks is not None else R.randint(1, 6)
    # RDH version and data format are per-link properties (each link validator learns its own header id;
    # the slot size is read from each packet's header): a third of the streams mix them across links
    mix_ver = ver is None and R.random() < 0.3
    mix_df = df is None and R.random() < 0.3
    ver = ver if ver is not None else R.choice([6, 7])
    df = df if df is not None else R.choice([0, 2])
    links, used = [], set()
    for l in range(nl):
        while True:
            layer = R.choice(layers) if layers else R.randint(0, 6)
            stave = R.randint(0, 11)
            if (layer, stave) not in used: break
        used.add((layer, stave))
        links.append(Link(R, l if nl <= 12 else l % 12, layer, stave, R.choice([0, 2]) if mix_df else df, R.choice([6, 7]) if mix_ver else ver))
    seqs = [sum((lk.hbf(hits=hits) for _ in range(R.randint(min_hbf, max(min_hbf, max_hbf)))), []) for lk in links]
    mode = mode or R.choice(['contig', 'rr', 'rand'])
    out = []
    if mode == 'contig':
        for s in seqs: out += s
    else:
        idx = [0] * nl
        k = 0
        while any(idx[i] < len(seqs[i]) for i in range(nl)):
            cand = [i for i in range(nl) if idx[i] < len(seqs[i])]
            i = cand[k % len(cand)] if mode == 'rr' else R.choice(cand)
            k += 1
            out.append(seqs[i][idx[i]]); idx[i] += 1
    meta = dict(links=[dict(link=lk.link, fee=lk.fee, kind=lk.kind, layer=lk.layer, stave=lk.stave) for lk in links],
                ver=ver if not mix_ver else 'mixed', df=df if not mix_df else 'mixed', mode=mode, npkts=len(out))
    return out, meta


def fill_page(pk, target_words):
    """grow one page of a conforming stream to exactly `target_words` words by appending idle data words (nine 0x00 bytes,
    which the ALPIDE decoder ignores outside a chip) after the last data word in front of its closing TDT; stays conforming in
    every mode. Returns the index of the grown packet or None."""
    for i, p in enumerate(pk):
        # the page must END the frame (TDT with packet_done = 1): only then is the last data word in front of the TDT the end of its
        # lane's data — in a page closed by TDT(packet_done = 0) the lane continues on the next page and the inserted zeros would land
        # inside a chip (seed sweep, seed 4: taken as a bunch counter)
        if p.raw_payload is not None or len(p.words) >= target_words or p.words[-1][9] != 0xF0 or not (p.words[-1][8] & 1): continue
        k = len(p.words) - 2
        if k < 1 or p.words[k][9] in (0xE0, 0xE8, 0xF0, 0xE4, 0xF8): continue       # the word before the TDT must be a data word
        did = p.words[k][9]
        extra = [bytes(9) + bytes([did])] * (target_words - len(p.words))
        p.words = p.words[:k + 1] + extra + p.words[k + 1:]
        return i
    return None


def switch_format(R, pk):
    """one link changes its data format at an HBF boundary (header and payload layout together, so the
    layout still agrees with each packet's own header); returns the indices of the switched packets"""
    cand = []
    for l in sorted({p.rdh['link'] for p in pk}):
        idx = [i for i, p in enumerate(pk) if p.rdh['link'] == l]
        starts = [i for i in idx[1:] if pk[i].rdh['page'] == 0]
        if starts: cand.append((idx, starts))
    if not cand: return []
    idx, starts = R.choice(cand)
    s0 = R.choice(starts)
    sw = [i for i in idx if i >= s0 and pk[i].raw_payload is None]
    if any(len(pk[i].words) > 620 for i in sw): return []       # would not fit the scanner's size limit in 16-byte slots
    for i in sw:
        pk[i].fmt = 0 if pk[i].fmt == 2 else 2
        pk[i].rdh['df'] = pk[i].fmt
    return sw


# ---------------------------------------------------------------- well-framed random streams (C03/C08/C14)
def random_framed_stream(R, npk, max_payload=300, nlinks=4, its=True):
    """arbitrary header values, well-framed (offset_to_next = memory_size = 64 + payload)"""
    pk = []
    fees = [((R.randint(0, 6) << 12) | R.randint(0, 47)) for _ in range(nlinks)]
    for i in range(npk):
        l = R.randrange(nlinks)
        n = R.choice([0, 0, 16, 32, R.randint(0, max_payload)])
        payload = bytes(R.getrandbits(8) for _ in range(n))
        pk.append(Pkt(dict(fee=fees[l] if R.random() < 0.9 else R.getrandbits(16), link=l if R.random() < 0.9 else R.getrandbits(8),
                           orbit=R.getrandbits(32), bc=R.getrandbits(12), df=R.choice([0, 2, 2, 3, 255]),
                           trig=R.getrandbits(32) | 1, page=R.getrandbits(16) if R.random() < 0.3 else i % 4,
                           stop=R.choice([0, 0, 1, 1, 2, 255]), det=R.getrandbits(32) if R.random() < 0.3 else 0,
                           ver=7, sysid=32 if its else R.choice([3, 4, 32, 33, 255]), pkt=i & 0xFF,
                           cru=R.getrandbits(12), dw=R.getrandbits(4) if R.random() < 0.2 else 0,
                           res1=R.getrandbits(20) if R.random() < 0.1 else 0, par=R.getrandbits(16),
                           reserved1=R.getrandbits(64) if R.random() < 0.2 else 0,
                           reserved2=R.getrandbits(64) if R.random() < 0.2 else 0,
                           dfres=R.getrandbits(56) if R.random() < 0.2 else 0,
                           res2=R.getrandbits(8) if R.random() < 0.1 else 0, res3=R.getrandbits(16) if R.random() < 0.1 else 0),
                      [], raw_payload=payload))
    return pk


def hexs(b): return b.hex().upper() if b else '-'
