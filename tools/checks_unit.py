"""Unit-level properties: C09 (FSM vs diagram), C10 (RDH rules), C11 (word sanity), C12 (cutter)."""
import shutil
import os, struct, sys
import fplib as L
import fpgen as G
import puml2lean


def corr(ck, name, requests, cfg_args=None):
    """run implementation (harness) and model (driver) on the same requests; return
    (impl_replies, model_replies, disagreements[(index, req, impl, model)])"""
    impl = L.run_harness(requests, cfg_args)
    model = L.run_driver(requests)
    dis = []
    if len(impl) != len(requests) or len(model) != len(requests):
        dis.append((-1, f'reply count: requests={len(requests)} impl={len(impl)} model={len(model)}', '', ''))
    for i, (q, a, b) in enumerate(zip(requests, impl, model)):
        if a.strip() != b.strip():
            dis.append((i, q, a, b))
    ck.corr[name] = dict(cases=len(requests), disagreements=len(dis))
    return impl, model, dis


def report_dis(ck, name, dis, oracle_failed_idx=()):
    """model/implementation disagreements for which the oracle found no failing input"""
    rest = [d for d in dis if d[0] not in oracle_failed_idx]
    if rest:
        ck.violation('corr_' + name, {'what': f'correspondence `{name}` no longer checks: model and implementation disagree; '
                                              'the property oracle accepts the implementation on these inputs',
                                      'correspondence': name,
                                      'disagreements': [dict(request=q[:400], impl=a[:400], model=b[:400]) for _, q, a, b in rest[:5]]},
                     has_input=False)


# =============================================================== C11
def spec_sane(kind, w):
    W = int.from_bytes(w, 'little')
    bits = lambda hi, lo: (W >> lo) & ((1 << (hi + 1 - lo)) - 1)
    if kind == 'ihw': return bits(79, 72) == 0xE0 and bits(71, 28) == 0
    if kind == 'tdh': return bits(79, 72) == 0xE8 and bits(71, 64) == 0 and bits(31, 28) == 0 and bits(15, 15) == 0 and (bits(11, 0) != 0 or bits(12, 12) != 0)
    if kind == 'tdt': return bits(79, 72) == 0xF0 and bits(71, 68) == 0 and bits(66, 66) == 0 and bits(60, 56) == 0
    if kind == 'ddw0': return bits(79, 72) == 0xE4 and bits(66, 66) == 0 and bits(64, 64) == 0 and bits(63, 56) == 0 and bits(71, 68) == 0


def spec_data_reported(idb, lanes):
    valid = (idb >> 5 == 1 and (idb & 31) <= 8) or (idb >> 5 == 2 and (idb & 7) <= 6)
    if not valid: return True
    if idb >> 5 == 1: return not (lanes >> (idb & 31)) & 1
    lane = 7 * ((idb >> 3) & 3) + (idb & 7)
    return not (lanes >> lane) & 1


KIND_ID = {'ihw': 0xE0, 'tdh': 0xE8, 'tdt': 0xF0, 'ddw0': 0xE4}


def run_c11(ck, ctx):
    R, tier = ctx['R'], ctx['tier']
    reqs, meta = [], []
    for kind, kid in KIND_ID.items():
        base = bytearray(10); base[9] = kid
        if kind == 'tdh': base[0] = 1
        # all 256 identifier bytes
        for i in range(256):
            w = bytearray(base); w[9] = i; reqs.append(f'sane {kind} {w.hex().upper()}'); meta.append((kind, bytes(w)))
        # every single-bit and two-bit pattern of the other 72 bits
        for b1 in range(72):
            w = bytearray(base); w[b1 // 8] ^= 1 << (b1 % 8); reqs.append(f'sane {kind} {w.hex().upper()}'); meta.append((kind, bytes(w)))
            for b2 in range(b1 + 1, 72):
                w2 = bytearray(w); w2[b2 // 8] ^= 1 << (b2 % 8); reqs.append(f'sane {kind} {w2.hex().upper()}'); meta.append((kind, bytes(w2)))
        w = bytearray(b'\xff' * 9 + bytes([kid])); reqs.append(f'sane {kind} {w.hex().upper()}'); meta.append((kind, bytes(w)))
        # zero word with the right id, random values
        w = bytearray(10); w[9] = kid; reqs.append(f'sane {kind} {w.hex().upper()}'); meta.append((kind, bytes(w)))
        for _ in range(2000 if tier == 'quick' else 200000):
            w = bytearray(R.getrandbits(8) for _ in range(10))
            if R.random() < 0.7: w[9] = kid
            if R.random() < 0.5:
                for j in range(9): w[j] &= R.choice([0, 0xFF, 0x0F, 0x01])
            reqs.append(f'sane {kind} {w.hex().upper()}'); meta.append((kind, bytes(w)))
    n_sane = len(reqs)
    # data words: all 256 IDs x all single-lane masks and random masks
    dmeta = []
    for idb in range(256):
        masks = [0, 0xFFFFFFF] + [1 << k for k in range(28)] + [0xFFFFFFF ^ (1 << k) for k in range(28)] + [R.getrandbits(28) for _ in range(8 if tier == 'quick' else 200)]
        for m in masks:
            w = bytearray(R.getrandbits(8) for _ in range(9)) + bytes([idb])
            reqs.append(f'data 1 {m} {w.hex().upper()}'); dmeta.append((idb, m, bytes(w)))
        w = bytes(9) + bytes([idb])
        reqs.append(f'data 0 {0} {w.hex().upper()}'); dmeta.append((idb, None, w))
    # CLI level: the verdict on a word depends on its 80 bits only, not on what the link has seen before: the SAME reserved bit
    # set in EVERY status word of one type (a stuck bit; the IHWs of a link are then byte-identical) is reported at every one
    for kind, kid, byte, bit, code in (('ihw', 0xE0, 5, 0x20, 'E30'), ('tdh', 0xE8, 3, 0x10, 'E40'), ('tdt', 0xF0, 8, 0x04, 'E50'), ('ddw0', 0xE4, 8, 0x04, 'E60')):
        pk, meta_s = G.conforming_stream(R, nlinks=R.randint(1, 2), min_hbf=3, max_hbf=4, hits=False)
        pk = [q.clone() for q in pk]
        want = set(); off = 0
        for q in pk:
            if q.raw_payload is None:
                for k, w in enumerate(q.words):
                    if w[9] == kid:
                        ww = bytearray(w); ww[byte] |= bit; q.words[k] = bytes(ww)
                        want.add((off + 64 + k * q.slot(), code))
            off += q.size()
        data = G.encode(pk)
        for mode in (['check', 'sanity', 'its'], ['check', 'all', 'its']):
            r = L.run_cli(mode, data)
            ck.case(('cli_stuck_bit', kind, tuple(mode))); ck.count('cli_stuck_bit_words', len(want))
            got = {(e[0], e[1]) for e in r.errors}
            if not want <= got:
                ck.violation('cli_stuck_bit', {'what': f'the same reserved bit set in every {kind.upper()} of the stream is not reported at every one of them '
                                                        '(the sanity verdict must depend on the word alone)', 'kind': kind,
                                               'missing': sorted(want - got)[:10], 'expected': len(want), 'input_hex': data.hex(), 'args': ' '.join(mode)})
    # CLI level: "its lane is not active in the GOVERNING IHW" — the IHW in front of the data word, whatever its own sanity verdict:
    # an IHW with a reserved bit set (reported [E30]) whose active lanes differ from the previous IHW's still governs its data words
    for vname, lanes1, lanes2, dlane, expect_e72 in (('lane_removed', 0b111, 0b011, 2, True), ('lane_added', 0b011, 0b111, 2, False),
                                                    ('lane_swapped', 0b101, 0b110, 0, True), ('same', 0b111, 0b111, 1, False)):
        bad_ihw = bytearray(G.ihw(lanes2)); bad_ihw[5] |= 0x20
        first_lane = 0 if lanes1 & 1 else 1
        pk = [G.Pkt(dict(orbit=50, page=0, trig=0x6a03), [G.ihw(lanes1), G.tdh(trig=3, orbit=50), G.dw(0x20 + first_lane, b'\x00' * 9), G.tdt(done=1)]),
              G.Pkt(dict(orbit=50, page=1, stop=1, trig=0x6a03), [G.ddw0()]),
              G.Pkt(dict(orbit=51, page=0, trig=0x6a03), [bytes(bad_ihw), G.tdh(trig=3, orbit=51), G.dw(0x20 + dlane, b'\x00' * 9), G.tdt(done=1)]),
              G.Pkt(dict(orbit=51, page=1, stop=1, trig=0x6a03), [G.ddw0()])]
        data = G.encode(pk)
        base = pk[0].size() + pk[1].size()
        r = L.run_cli(['check', 'all', 'its'], data)
        got = {(e[0], e[1]) for e in r.errors}
        ck.case(('cli_governing_ihw', vname)); ck.count('cli_governing_ihw')
        want_ihw = (base + 64, 'E30'); dw_at = (base + 64 + 20, 'E72')
        if want_ihw not in got or ((dw_at in got) != expect_e72):
            ck.violation('cli_governing_ihw', {'what': 'a data word must be judged against the active lanes of the IHW in front of it (also when that IHW itself fails its sanity check)',
                                               'variant': vname, 'lanes_previous_ihw': lanes1, 'lanes_governing_ihw': lanes2, 'data_word_lane': dlane,
                                               'expected_E72_at_data_word': expect_e72, 'got': sorted(got), 'input_hex': data.hex(), 'args': 'check all its'})
    # ... and on a CONTINUATION page the governing IHW is the continuation page's own IHW, not the one of the first page of the frame
    # (seeded C11-m5: active lanes cached from the initial IHW only)
    for vname, lanes1, lanes2, dlane, expect_e72 in (('cont_lane_removed', 0b111, 0b011, 2, True), ('cont_lane_added', 0b011, 0b111, 2, False),
                                                    ('cont_lane_swapped', 0b101, 0b110, 0, True), ('cont_same', 0b111, 0b111, 1, False)):
        first_lane = 0 if lanes1 & 1 else 1
        pk = [G.Pkt(dict(orbit=50, page=0, trig=0x6a03), [G.ihw(lanes1), G.tdh(trig=3, orbit=50), G.dw(0x20 + first_lane, b'\x00' * 9), G.tdt(done=0)]),
              G.Pkt(dict(orbit=50, page=1, trig=0x6a03), [G.ihw(lanes2), G.tdh(trig=3, orbit=50, cont=1), G.dw(0x20 + dlane, b'\x00' * 9), G.tdt(done=1)]),
              G.Pkt(dict(orbit=50, page=2, stop=1, trig=0x6a03), [G.ddw0()])]
        data = G.encode(pk)
        r = L.run_cli(['check', 'all', 'its'], data)
        got = {(e[0], e[1]) for e in r.errors}
        ck.case(('cli_governing_ihw', vname)); ck.count('cli_governing_ihw')
        dw_at = (pk[0].size() + 64 + 20, 'E72')
        others = {g for g in got if g != dw_at}
        if ((dw_at in got) != expect_e72) or others:
            ck.violation('cli_governing_ihw', {'what': 'on a continuation page a data word must be judged against the active lanes of that page\'s own IHW',
                                               'variant': vname, 'lanes_first_page_ihw': lanes1, 'lanes_continuation_ihw': lanes2, 'data_word_lane': dlane,
                                               'expected_E72_at_data_word': expect_e72, 'got': sorted(got), 'input_hex': data.hex(), 'args': 'check all its'})
    if not ctx['harness_ok']:
        ck.notes.append('C11: harness unavailable, unit correspondence skipped'); return
    impl, model, dis = corr(ck, 'word_sanity', reqs)
    bad_idx = set()
    for i, a in enumerate(impl[:n_sane]):
        kind, w = meta[i]
        ck.case((kind, w))
        exp = spec_sane(kind, w)
        ck.count(f'{kind}_{"ok" if exp else "bad"}')
        if (a == 'ok') != exp:
            bad_idx.add(i)
            ck.violation('sane', {'what': f'{kind} sanity check of the implementation deviates from the documented rule',
                                  'word_hex': w.hex(), 'kind': kind, 'implementation': a, 'specified': 'ok' if exp else 'bad',
                                  'replay': f'echo "sane {kind} {w.hex().upper()}" | {L.HARNESS}'})
    for j, a in enumerate(impl[n_sane:]):
        i = n_sane + j
        idb, m, w = dmeta[j]
        ck.case(('data', idb, m))
        if m is None:
            exp = not ((idb >> 5 == 1 and (idb & 31) <= 8) or (idb >> 5 == 2 and (idb & 7) <= 6))
        else:
            exp = spec_data_reported(idb, m) or (idb >> 5 == 2 and (idb & 7) == 7)
        ck.count('data_reported' if exp else 'data_clean')
        got = a.strip() != ';'
        if got != exp:
            bad_idx.add(i)
            ck.violation('data', {'what': 'data word reporting deviates from the documented rule', 'id': idb, 'lanes': m,
                                  'word_hex': w.hex(), 'implementation': a, 'specified_reported': exp})
    ck.sample(dict(request=reqs[5], impl=impl[5], model=model[5]))
    ck.sample(dict(request=reqs[n_sane + 40], impl=impl[n_sane + 40], model=model[n_sane + 40]))
    report_dis(ck, 'word_sanity', dis, bad_idx)


# =============================================================== C12
def overpad_then_nonihw(ck, R, pre_variants):
    # ... and "judged from the initial state" also when the packet after the over-padded one does NOT start with an IHW: whatever
    # its first word is (a data word, a TDH, a TDT), it is examined as the IHW the initial state expects and reported there
    firsts = {'data': G.dw(0x20, b'\x05' * 9), 'tdh': G.tdh(trig=3, orbit=5), 'tdt': G.tdt(done=1), 'data_ob': G.dw(0x43, b'\x06' * 9)}
    for vname, pre in pre_variants.items():
        for fname, fw in firsts.items():
            mode = ['check', 'sanity', 'its'] if (len(vname) + len(fname)) % 2 else ['check', 'all', 'its']
            pk, page = [], 0
            if pre is not None:
                pk.append(G.Pkt(dict(orbit=5, page=page, trig=0x6a03), pre)); page += 1
            junk = [G.dw(0x20, b'\x07' * 9)] + [G.ihw(7), G.tdh(trig=3, orbit=5)]
            pk.append(G.Pkt(dict(orbit=5, page=page, trig=0x6a03), junk, raw_payload=b''.join(junk) + b'\xff' * R.choice([16, 22, 31])))
            bad_off = sum(p.size() for p in pk[:-1]); page += 1
            pk.append(G.Pkt(dict(orbit=5, page=page, trig=0x6a03), [fw, G.ihw(7), G.tdh(trig=3, orbit=5), G.dw(0x20, b'\x03' * 9), G.tdt(done=1)])); page += 1
            pk.append(G.Pkt(dict(orbit=5, page=page, stop=1, trig=0x6a03), [G.ddw0()]))
            data = G.encode(pk)
            after = bad_off + pk[-3].size()
            r = L.run_cli(mode, data)
            ck.case(('cli_overpad_next', vname, fname)); ck.count('overpad_then_' + fname)
            hit = [e for e in r.errors if e[0] == after + 64 and e[1] == 'E30']
            pay = [e for e in r.errors if e[1] == 'PAYLOAD']
            if pay != [(bad_off, 'PAYLOAD', None)] or not hit:
                ck.violation('cli_overpad', {'what': 'over-padded payload followed by a packet whose first word is not an IHW: the protocol state must have been reset, so '
                                                     'that first word is reported as an invalid IHW ([E30]) at its own offset',
                                             'state_before': vname, 'first_word_of_next_packet': fname, 'expected_error_at': after + 64, 'input_hex': data.hex(),
                                             'errors': r.errors, 'args': ' '.join(mode)})


def run_c12(ck, ctx):
    R, tier = ctx['R'], ctx['tier']
    reqs, meta = [], []

    def rword():
        w = bytearray(R.getrandbits(8) for _ in range(10))
        w[9] = R.choice([0xE0, 0xE8, 0xF0, 0xE4, 0xF8, 0x20, 0x28, 0x43, 0x5E, R.randrange(0, 255)])
        return bytes(w)
    counts = list(range(0, 24)) + [99, 100, 101, 511, 512, 700] if tier == 'quick' else list(range(0, 701))
    for n in counts:
        for fmt in (0, 2):
            for pad in ([None] + list(range(0, 41)) if fmt == 2 else [None, 1, 15, 16, 17, 32, 40]):
                if tier == 'quick' and n > 24 and pad not in (None, 0, 9, 10, 15, 16): continue
                words = [rword() for _ in range(n)]
                if fmt == 0:
                    # the padding limit holds for every payload: 16-byte slots followed by a run of 0xFF (pad = None: none)
                    k = 0 if pad is None else pad
                    p = b''.join(w + bytes(6) for w in words) + b'\xff' * k
                    exp = 'err' if k > 15 else ((words if n > 0 else None) if k == 0 else None)
                else:
                    k = (-10 * n) % 16 if pad is None else pad
                    # the layout's own condition: second word slot must not look like format-0 padding
                    if n >= 2 and words[1][:6] == bytes(6): words[1] = b'\x01' + words[1][1:]
                    p = b''.join(words) + b'\xff' * k
                    exp = 'err' if k > 15 else (words if (k <= 15 and (n == 0 or words[-1][9] != 0xFF)) else None)
                    if n == 1 and k >= 6 and False: exp = None
                reqs.append('cut ' + G.hexs(p)); meta.append((fmt, n, pad, exp, p))
    # residues: random byte strings of every length 0..80 (no expectation; correspondence only)
    for ln in range(0, 81):
        for _ in range(3):
            p = bytes(R.choice([0, 0xFF, R.getrandbits(8)]) for _ in range(ln))
            reqs.append('cut ' + G.hexs(p)); meta.append((None, None, None, None, p))
    if not ctx['harness_ok']:
        ck.notes.append('C12: harness unavailable'); return
    impl, model, dis = corr(ck, 'cutter', reqs)
    bad_idx = set()
    for i, a in enumerate(impl):
        fmt, n, pad, exp, p = meta[i]
        ck.case((fmt, n, pad, len(p)))
        if exp is None: ck.count('no_expectation'); continue
        if exp == 'err':
            ck.count('overpadded')
            ok = a == 'err'
        else:
            ck.count(f'fmt{fmt}_words')
            toks = a.split(' ')
            ok = toks[0] == str(len(exp)) and [t for t in toks[1:]] == [w.hex().upper() for w in exp]
        if not ok:
            bad_idx.add(i)
            ck.violation('cut', {'what': 'payload is not cut into the words its layout prescribes', 'format': fmt, 'words': n,
                                 'pad': pad, 'payload_hex': p.hex(), 'implementation': a[:300],
                                 'expected': 'err' if exp == 'err' else f'{len(exp)} words'})
    ck.sample(dict(request=reqs[10][:120], impl=impl[10][:120], model=model[10][:120]))
    report_dis(ck, 'cutter', dis, bad_idx)
    # CLI level: padding error is reported once at the RDH offset and the next packet is judged from the initial
    # state — whatever state the link's word state machine was in before (data phase, open packet, after TDH)
    pre_variants = {
        'after_tdh': [G.ihw(7), G.tdh(trig=3, orbit=5)],
        'in_data': [G.ihw(7), G.tdh(trig=3, orbit=5), G.dw(0x20, b'\x01' * 9), G.dw(0x21, b'\x02' * 9)],
        'open_packet': [G.ihw(7), G.tdh(trig=3, orbit=5), G.dw(0x20, b'\x01' * 9), G.tdt(done=0)],
        'none': None,
    }
    for vname, pre in pre_variants.items():
        for mode in (['check', 'sanity', 'its'], ['check', 'all', 'its']):
            pk = []
            page = 0
            if pre is not None:
                pk.append(G.Pkt(dict(orbit=5, page=page, trig=0x6a03), pre)); page += 1
            junk = [G.dw(0x20, b'\x07' * 9)] + [G.ihw(7), G.tdh(trig=3, orbit=5)]
            pk.append(G.Pkt(dict(orbit=5, page=page, trig=0x6a03), junk, raw_payload=b''.join(junk) + b'\xff' * R.choice([16, 22, 31])))
            bad_off = sum(p.size() for p in pk[:-1]); page += 1
            pk.append(G.Pkt(dict(orbit=5, page=page, trig=0x6a03), [G.ihw(7), G.tdh(trig=3, orbit=5), G.dw(0x20, b'\x03' * 9), G.tdt(done=1)])); page += 1
            pk.append(G.Pkt(dict(orbit=5, page=page, stop=1, trig=0x6a03), [G.ddw0()]))
            data = G.encode(pk)
            after = bad_off + pk[-3].size()
            r = L.run_cli(mode, data)
            ck.case(('cli_overpad', vname, tuple(mode)))
            errs = r.errors
            pay = [e for e in errs if e[1] == 'PAYLOAD']
            late = [e for e in errs if e[0] is not None and e[0] >= after and e[1] not in ('E10', 'E11')]
            if pay != [(bad_off, 'PAYLOAD', None)] or late:
                ck.violation('cli_overpad', {'what': 'over-padded payload: expected exactly one payload error at its RDH offset and the following packets judged from the initial state (no word-level error in them)',
                                             'state_before': vname, 'input_hex': data.hex(), 'errors': errs, 'args': ' '.join(mode),
                                             'payload_errors': pay, 'errors_in_following_packets': late})
    overpad_then_nonihw(ck, R, pre_variants)
    # view level: number of word rows equals the number of words
    pk, _ = G.conforming_stream(R, nlinks=2, df=None)
    data = G.encode(pk)
    r = L.run_cli(['view', 'its-readout-frames-data', '-d'], data, stats=False)
    rows = [l for l in r.stdout.decode('utf-8', 'replace').split('\n') if len(l) > 10 and l[8:9] == ':' and l[10:14] in ('IHW ', 'TDH ', 'TDT ', 'DDW ', 'CDW ', 'DATA')]
    nwords = sum(len(p.words) for p in pk)
    ck.case(('cli_view_rows', nwords))
    if len(rows) != nwords:
        ck.violation('view_rows', {'what': 'data view does not show one row per payload word', 'rows': len(rows), 'words': nwords,
                                   'input_hex': data.hex()})


# =============================================================== C09
def diagram():
    nodes, edges, choice, composites = puml2lean.parse(open(os.path.join(L.REPO, 'doc', 'ITS_payload_fsm_continuous_mode.puml')).read())
    return nodes, edges, choice, composites


def kind_of_id(i):
    if i == 0xE0: return 'ihw'
    if i == 0xE8: return 'tdh'
    if i == 0xF0: return 'tdt'
    if i == 0xE4: return 'ddw0'
    if i == 0xF8: return 'cdw'
    if (i >> 5 == 1 and (i & 31) <= 8) or (i >> 5 == 2 and (i & 7) <= 6): return 'data'
    return 'unknown'


CONSUMES = {'IHW': 'ihw', 'c_IHW': 'ihw', 'TDH': 'tdh', 'c_TDH': 'tdh', 'TDT': 'tdt', 'c_TDT': 'tdt', 'DDW0': 'ddw0'}
GUARD_WORD = {'wTDH': 'tdh', 'wDDW0': 'ddw0', 'wIHW': 'ihw', 'wData': 'data', 'wTDT': 'tdt'}


def diag_legal(edges, composites, node, nd, pd, fuel=8):
    """independent (Python) reading of the diagram: legal (kind, node) pairs"""
    if fuel == 0: return []
    out = []
    for s, d, gs in edges:
        if s != node: continue
        ok = True
        for g in gs:
            if g == 'noData0' and nd: ok = False
            if g == 'noData1' and not nd: ok = False
            if g == 'pd0' and pd: ok = False
            if g == 'pd1' and not pd: ok = False
        if not ok: continue
        wk = next((GUARD_WORD[g] for g in gs if g in GUARD_WORD), None)
        if wk: out.append((wk, d)); continue
        if d in CONSUMES: out.append((CONSUMES[d], d)); continue
        nxt = d
        if d in composites: nxt = d + '_init'
        elif d == 'top_final': nxt = 'top_init'
        out += diag_legal(edges, composites, nxt, nd, pd, fuel - 1)
    return out


CLASS_KIND = {'IHW': 'ihw', 'IHW_continuation': 'ihw', 'TDH': 'tdh', 'TDH_continuation': 'tdh', 'TDH_after_packet_done': 'tdh',
              'TDT': 'tdt', 'CDW': 'cdw', 'DataWord': 'data', 'DDW0': 'ddw0'}
# diagram configuration of each implementation state id (the simulation relation R of Props/C09.lean)
STATE_CFG = {0: ('top_init', 0, 0), 1: ('IHW', 0, 0), 2: ('TDH', 1, 0), 3: ('TDH', 0, 0), 4: ('Data', 0, 0), 5: ('TDT', 0, 0),
             6: ('c_IHW', 0, 0), 7: ('c_TDH', 0, 0), 8: ('c_Data', 0, 0), 9: ('TDT', 0, 1), 10: ('DDW0', 0, 0)}


def run_c09(ck, ctx):
    R, tier = ctx['R'], ctx['tier']
    nodes, edges, choice, composites = diagram()
    reqs, meta = [], []
    fills = 2 if tier == 'quick' else 24
    for sid in range(11):
        for idb in range(256):
            for nd in (0, 1):
                for pd in (0, 1):
                    for k in range(fills):
                        w = bytearray(R.getrandbits(8) for _ in range(10)) if k else bytearray(10)
                        w[9] = idb
                        w[1] = (w[1] & ~0x20) | (0x20 if nd else 0)
                        w[8] = (w[8] & ~1) | pd
                        reqs.append(f'fsm {sid} {w.hex().upper()}'); meta.append((sid, idb, nd, pd))
    if not ctx['harness_ok']:
        ck.notes.append('C09: harness unavailable'); return
    impl, model, dis = corr(ck, 'fsm_step', reqs)
    bad_idx = set()
    edges_taken = set()
    for i, a in enumerate(impl):
        sid, idb, nd, pd = meta[i]
        ck.case((sid, idb, nd, pd))
        toks = a.split(' ')
        if len(toks) != 2 or not toks[0].isdigit():
            bad_idx.add(i); ck.violation('fsm', {'what': 'implementation state not reachable / bad reply', 'request': reqs[i], 'reply': a}); continue
        nxt, cls = int(toks[0]), toks[1]
        edges_taken.add((sid, nxt, cls))
        node, cnd, cpd = STATE_CFG[sid]
        legal = diag_legal(edges, composites, node, cnd, cpd)
        legal = legal + [('cdw', n) for k, n in legal if k == 'data']
        kind = kind_of_id(idb)
        tgt = [n for k, n in legal if k == kind]
        if tgt:
            ck.count('legal')
            ok = CLASS_KIND.get(cls) == kind
            # successor must be a state whose configuration is the diagram's successor
            if ok:
                n2, nd2, pd2 = STATE_CFG[nxt]
                okn = (n2 == tgt[0] or (n2 == 'TDT' and tgt[0] == 'c_TDT'))
                if kind == 'tdh' and tgt[0] == 'TDH': okn = okn and nd2 == nd
                if kind == 'tdt': okn = okn and pd2 == pd
                ok = okn
            if not ok:
                bad_idx.add(i)
                ck.violation('fsm', {'what': 'a word legal in the documented diagram is not classified / followed as the diagram prescribes',
                                     'state': sid, 'id': idb, 'no_data': nd, 'packet_done': pd, 'implementation': a,
                                     'diagram_kind': kind, 'diagram_target': tgt[0], 'request': reqs[i]})
        else:
            ck.count('illegal')
            silent = cls in CLASS_KIND and not ((CLASS_KIND[cls] == 'ihw' and idb != 0xE0) or (CLASS_KIND[cls] == 'tdh' and idb != 0xE8))
            if silent:
                bad_idx.add(i)
                ck.violation('fsm', {'what': 'a word that is illegal in the documented diagram is silently accepted',
                                     'state': sid, 'id': idb, 'no_data': nd, 'packet_done': pd, 'implementation': a, 'request': reqs[i]})
    ck.dist['distinct_transitions_taken'] = len(edges_taken)
    ck.sample(dict(request=reqs[1234], impl=impl[1234], model=model[1234]))
    report_dis(ck, 'fsm_step', dis, bad_idx)
    # CLI level: an illegal word in each kind of state is reported at that word
    pk = [G.Pkt(dict(orbit=9, page=0), [G.ihw(7), G.tdh(trig=3, orbit=9), G.dw(0x20, bytes([0xE0, 1]) + bytes(7)), bytes(9) + b'\x99', G.tdt(1)]),
          G.Pkt(dict(orbit=9, page=1, stop=1), [bytes(9) + b'\x77']),
          G.Pkt(dict(orbit=10, page=0), [bytes(9) + b'\x55', G.tdh(trig=3, orbit=10, nodata=1)])]
    data = G.encode(pk)
    r = L.run_cli(['check', 'all', 'its'], data)
    ck.case(('cli_illegal',))
    want = {(64 + 30, 'E991'), (pk[0].size() + 64, 'E992'), (pk[0].size() + pk[1].size() + 64, 'E30')}
    got = {(e[0], e[1]) for e in r.errors}
    if not want <= got:
        ck.violation('cli_illegal', {'what': 'illegal words are not reported at their offsets', 'want': sorted(want), 'got': sorted(got),
                                     'input_hex': data.hex(), 'args': 'check all its'})
    # ... also when the illegal identifier is 0xFF and the word is the LAST of its packet (data format 2): together with up to 8 bytes
    # of 0xFF padding the trailing run stays below 10, so the word is still cut and must be classified and reported (seeded C09-m5:
    # the padding run stripped unconditionally, which eats the identifier byte)
    for npad in (0, 3, 6, 8):
        pkf = [G.Pkt(dict(orbit=9, page=0), [G.ihw(7), G.tdh(trig=3, orbit=9), G.dw(0x20, bytes([0xE0, 1]) + bytes(7)), G.tdt(1)]),
               G.Pkt(dict(orbit=9, page=1, stop=1), [bytes(9) + b'\xFF'], pad=npad)]
        dataf = G.encode(pkf)
        for mode in (['check', 'sanity', 'its'], ['check', 'all', 'its']):
            r = L.run_cli(mode, dataf)
            ck.case(('cli_illegal_ff_last', npad, tuple(mode))); ck.count('cli_illegal_ff_last')
            at = pkf[0].size() + 64
            if not any(e[0] == at and e[1] == 'E992' for e in r.errors):
                ck.violation('cli_illegal', {'what': 'a last word with identifier 0xFF followed by %d padding bytes is not reported at that word' % npad,
                                             'offset': at, 'got': sorted((e[0], e[1]) for e in r.errors), 'input_hex': dataf.hex(), 'args': ' '.join(mode)})
    # the state is carried across packets and heartbeat frames: an HBF that ends inside a packet (no TDT, no DDW0)
    # leaves the link in the data phase, where the IHW that opens the next HBF is not a legal word
    for mode in (['check', 'sanity', 'its'], ['check', 'all', 'its']):
        pk = [G.Pkt(dict(orbit=30, page=0), [G.ihw(7), G.tdh(trig=3, orbit=30), G.dw(0x20, b'\x01' * 9)]),
              G.Pkt(dict(orbit=30, page=1, stop=1), [], raw_payload=b''),
              G.Pkt(dict(orbit=31, page=0), [G.ihw(7), G.tdh(trig=3, orbit=31), G.dw(0x20, b'\x02' * 9), G.tdt(1)]),
              G.Pkt(dict(orbit=31, page=1, stop=1), [G.ddw0()])]
        data = G.encode(pk)
        at = pk[0].size() + pk[1].size() + 64
        r = L.run_cli(mode, data)
        ck.case(('cli_carried_state', tuple(mode)))
        if not any(e[0] == at for e in r.errors):
            ck.violation('cli_illegal', {'what': 'the word state is not carried across packets: an IHW arriving while the link is in the data phase is not reported at that word',
                                         'offset': at, 'got': sorted((e[0], e[1]) for e in r.errors), 'input_hex': data.hex(), 'args': ' '.join(mode)})
    # … also when the very same illegal word comes back in the same slot of consecutive HBFs (a stuck bit):
    # single-successor states rely on the sanity code of the expected word type at *every* occurrence
    for slot, mk in (('ihw', lambda: bytes([0xC0, 0x01]) + bytes(7) + b'\xE1'),
                     ('tdh', lambda: G.tdh(trig=3, orbit=0, nodata=1)[:9] + b'\xE9')):
        bad = mk()
        pk, want = [], set()
        for hbf in range(R.randint(3, 5)):
            orbit = 20 + hbf
            if slot == 'ihw':
                words = [bad, G.tdh(trig=3, orbit=orbit, nodata=1)]; k = 0; code = 'E30'
            else:
                w = bytearray(bad); w[4:8] = orbit.to_bytes(4, 'little'); words = [G.ihw(7), bytes(w) if False else bad]; k = 1; code = 'E40'
            off = sum(p.size() for p in pk)
            pk.append(G.Pkt(dict(orbit=orbit, page=0), words))
            pk.append(G.Pkt(dict(orbit=orbit, page=1, stop=1), [G.ddw0()]))
            want.add((off + 64 + 10 * k, code))
        data = G.encode(pk)
        for mode in (['check', 'sanity', 'its'], ['check', 'all', 'its']):
            r = L.run_cli(mode, data)
            ck.case(('cli_repeat_illegal', slot, tuple(mode)))
            got = {(e[0], e[1]) for e in r.errors}
            if not want <= got:
                ck.violation('cli_illegal', {'what': 'the same illegal word repeated in the same slot is not reported at every occurrence', 'slot': slot,
                                             'want': sorted(want), 'got': sorted(got), 'input_hex': data.hex(), 'args': ' '.join(mode)})
    run_c09_sequences(ck, ctx)


    # after a padding error the machine restarts in the IHW state: a word that is not an IHW is never silently accepted there
    overpad_then_nonihw(ck, R, {'in_data': [G.ihw(7), G.tdh(trig=3, orbit=5), G.dw(0x20, b'\x01' * 9), G.dw(0x21, b'\x02' * 9)],
                                'after_tdh': [G.ihw(7), G.tdh(trig=3, orbit=5)], 'none': None})

def diagram_first_illegal(words_per_packet):
    """independent reading of the documented diagram (continuous mode), used only up to the first illegal word of a link:
    returns (packet index, word index) of the first word whose identifier is not legal in the current diagram state, or None.
    States: IHW (start / after DDW0), TDH (after IHW), CHOICE (after no-data TDH or TDT packet_done=1: TDH | IHW | DDW0),
    DATA (after TDH with data: data word | CDW | TDT), cIHW (after TDT packet_done=0), cTDH, cDATA."""
    is_data = lambda i: 0x20 <= i <= 0x28 or 0x40 <= i <= 0x46 or 0x48 <= i <= 0x4E or 0x50 <= i <= 0x56 or 0x58 <= i <= 0x5E
    st = 'IHW'
    for pi, ws in enumerate(words_per_packet):
        for wi, w in enumerate(ws):
            i = w[9]; nd = (w[1] >> 5) & 1; pd = w[8] & 1
            if st == 'IHW':
                if i != 0xE0: return pi, wi
                st = 'TDH'
            elif st == 'TDH':
                if i != 0xE8: return pi, wi
                st = 'CHOICE' if nd else 'DATA'
            elif st == 'CHOICE':
                if i == 0xE8: st = 'CHOICE' if nd else 'DATA'
                elif i == 0xE0: st = 'TDH'
                elif i == 0xE4: st = 'IHW'
                else: return pi, wi
            elif st in ('DATA', 'cDATA'):
                if is_data(i) or i == 0xF8: pass
                elif i == 0xF0: st = 'CHOICE' if pd else 'cIHW'
                else: return pi, wi
            elif st == 'cIHW':
                if i != 0xE0: return pi, wi
                st = 'cTDH'
            elif st == 'cTDH':
                if i != 0xE8: return pi, wi
                st = 'cDATA'
    return None


def run_c09_sequences(ck, ctx):
    """word sequences over consecutive packets of a link, mutated at word level (insert / replace / delete / duplicate words of
    every kind, anywhere — also a data word after the packet was closed, also in a packet whose RDH carries a sanity fault)"""
    import checks_link as CL
    R, tier = ctx['R'], ctx['tier']
    kinds = [lambda: G.ihw(0x3FFF), lambda: G.tdh(trig=3, orbit=R.getrandbits(16), nodata=R.choice([0, 1])), lambda: G.tdt(R.choice([0, 1])),
             lambda: G.ddw0(), lambda: G.dw(R.choice([0x20, 0x22, 0x43, 0x5E]), bytes(R.getrandbits(8) for _ in range(9))),
             lambda: G.cdw(user=R.getrandbits(48), index=0), lambda: bytes(R.getrandbits(8) for _ in range(9)) + bytes([R.choice([0x13, 0x99, 0xE1, 0x00, 0x47])])]      # (no 0xFF identifier: as last word it merges with the padding run, C12's business)
    jobs = []
    for si in range(24 if tier == 'quick' else 400):
        pk, meta = G.conforming_stream(R, nlinks=1, max_hbf=R.randint(2, 4), hits=False, df=R.choice([0, 2]))
        cand = [i for i, p in enumerate(pk) if p.words]
        for _ in range(R.randint(1, 3)):
            i = R.choice(cand); ws = pk[i].words
            op = R.choice(['insert', 'insert', 'replace', 'delete', 'dup'])
            k = R.randrange(len(ws) + (1 if op == 'insert' else 0)) if ws else 0
            if op == 'insert': ws.insert(k, R.choice(kinds)())
            elif op == 'replace' and ws: ws[k] = R.choice(kinds)()
            elif op == 'delete' and len(ws) > 1: del ws[k]
            elif op == 'dup' and ws: ws.insert(k, ws[k])
            if R.random() < 0.35 and i > 0:          # the same packet also has an RDH sanity fault
                key, val = R.choice([('res0', 1), ('sysid', 33), ('prio', 1), ('bc', 0xdec), ('dw', 3)])
                pk[i].rdh[key] = val
        data = G.encode(pk)
        for m in (('sanity', 'its'), ('all', 'its')):
            jobs.append((si, m, pk, data))
    res = L.pmap(lambda j: L.run_cli(CL.mode_args(j[1]), j[3]), jobs)
    reqs = []
    for (si, m, pk, data), r in zip(jobs, res):
        ck.case(('seq', si, m)); ck.count('seq_streams')
        reqs.append(f'run {CL.mode_tok(m)} data={G.hexs(data)}')
        first = diagram_first_illegal([p.words for p in pk])
        if first is None or r.stats is None: continue
        pi, wi = first
        offs = G.offsets(pk)
        at = offs[pi] + 64 + wi * (16 if pk[pi].fmt == 0 else 10)
        ck.count('seq_streams_with_illegal_word')
        if not any(e[0] == at and e[2] is not None for e in r.errors):
            ck.violation('cli_illegal', {'what': 'the first word of the link that is illegal in the documented state diagram is not reported at that word',
                                         'packet': pi, 'word_index': wi, 'offset': at, 'word': pk[pi].words[wi].hex(), 'args': ' '.join(CL.mode_args(m)),
                                         'errors': sorted((e[0], e[1]) for e in r.errors)[:12], 'input_hex': data.hex()})
    dis = CL.compare_model(ck, 'run_word_sequences', jobs, res, reqs)
    report_dis(ck, 'run_word_sequences', dis)


# =============================================================== C10
def spec_rdh_sane(b, expect_id, its):
    H = int.from_bytes(b, 'little')
    bits = lambda hi, lo: (H >> lo) & ((1 << (hi + 1 - lo)) - 1)
    return (bits(7, 0) == expect_id and bits(15, 8) == 0x40 and bits(21, 16) <= 47 and bits(23, 22) == 0 and bits(27, 26) == 0
            and bits(31, 31) == 0 and bits(30, 28) <= 6 and bits(39, 32) == 0 and (not its or bits(47, 40) == 32) and bits(63, 48) == 0
            and bits(127, 124) <= 1 and bits(199, 192) <= 2 and bits(139, 128) <= 0xdeb and bits(159, 140) == 0
            and bits(287, 256) != 0 and bits(282, 271) == 0 and bits(311, 304) <= 1 and bits(319, 312) == 0
            and bits(407, 396) == 0 and bits(447, 432) == 0)


def spec_running(hist):
    """closed-form running rules over a history of RDH field dicts -> list of bool (reported)"""
    out = []
    for i, r in enumerate(hist):
        prev = hist[:i]
        # expected page: stop-0 headers since the last stop-1 header
        k = 0
        for q in reversed(prev):
            if q['stop'] == 1: break
            if q['stop'] == 0: k += 1
        ok = r['stop'] <= 1 and r['page'] == k % 65536
        if prev:
            l = prev[-1]
            if l['stop'] == 1 and l['orbit'] == r['orbit']: ok = False
            if r['page'] != 0 and not (r['orbit'] == l['orbit'] and r['trig'] == l['trig'] and r['fee'] == l['fee']): ok = False
        out.append(not ok)
    return out


def base_rdh(R):
    f = dict(G.RDH_DEFAULT); f.update(off=64, size=64, fee=(R.randint(0, 6) << 12) | R.randint(0, 47) | (R.randint(0, 3) << 8),
                                      link=R.randint(0, 11), orbit=R.getrandbits(32), bc=R.randint(0, 0xdeb), df=R.choice([0, 2]),
                                      trig=R.choice([0x6a03, 0x13, 0x80000001]), ver=R.choice([6, 7]), cru=R.getrandbits(12), dw=R.choice([0, 1]),
                                      det=R.choice([0, 0xFFF, 0xFF000FFF]), par=R.getrandbits(16), pkt=R.getrandbits(8))
    return f


def run_c10(ck, ctx):
    R, tier = ctx['R'], ctx['tier']
    reqs, meta = [], []
    nbase = 3 if tier == 'quick' else 40
    for _ in range(nbase):
        f = base_rdh(R); first = G.rdh_bytes(f)
        for its in (0, 1):
            reqs.append(f'rdhsane {its} {first.hex().upper()} {first.hex().upper()}'); meta.append((its, first, first))
            for bit in range(512):
                b = bytearray(first); b[bit // 8] ^= 1 << (bit % 8)
                reqs.append(f'rdhsane {its} {first.hex().upper()} {bytes(b).hex().upper()}'); meta.append((its, first, bytes(b)))
        # boundary values
        for key, vals in [('bc', [0xdea, 0xdeb, 0xdec, 0xfff]), ('fee', [47, 48, 0x602F, 0x6030, 0x7000, 0x6000, 0x0300]), ('stop', [0, 1, 2, 255]),
                          ('df', [0, 1, 2, 3, 255]), ('dw', [0, 1, 2, 15]), ('trig', [0, 1, 1 << 14, 1 << 15, 1 << 26, 1 << 27, 0xFFFFFFFF]),
                          ('det', [0xFFF, 0x1000, 0x800000, 0x1000000, 0xFFFFFFFF]), ('ver', [6, 7, 0, 255]), ('sysid', [32, 33, 0, 255]),
                          ('hsize', [0x40, 0x3F, 0x41]), ('prio', [0, 1]), ('res0', [0, 1, 0x8000]), ('res1', [0, 1, 0x80000]), ('res2', [0, 1]), ('res3', [0, 1])]:
            for v in vals:
                g = dict(f); g[key] = v; b = G.rdh_bytes(g)
                for its in (0, 1):
                    reqs.append(f'rdhsane {its} {first.hex().upper()} {b.hex().upper()}'); meta.append((its, first, b))
    n_sane = len(reqs)
    # running: histories starting at an HBF start with random walks / deviations
    hmeta = []
    nh = 60 if tier == 'quick' else 1500
    for hi in range(nh):
        f = base_rdh(R)
        ln = R.choice([2, 3, 5, 10, 40, 200]) if tier == 'quick' else R.choice([2, 5, 40, 400, 3000])
        if hi % 10 == 3: ln = R.choice([300, 520, 700, 1100])      # long histories: counters far beyond 8 bits
        hist = []
        page, orbit, trig, fee = 0, f['orbit'], f['trig'], f['fee']
        for i in range(ln):
            stop = 1 if (page > 0 and R.random() < 0.3) else 0
            g = dict(f); g.update(page=page, stop=stop, orbit=orbit, trig=trig, fee=fee)
            if i >= 2 and R.random() < 0.08:
                dev = R.choice(['page', 'stop', 'orbit', 'trig', 'fee', 'stop2', 'page0'])
                if dev == 'page': g['page'] = (page + R.choice([1, 2, 65535])) & 0xFFFF
                if dev == 'stop': g['stop'] = 1 - stop
                if dev == 'stop2': g['stop'] = R.choice([2, 255])
                if dev == 'orbit': g['orbit'] = (orbit + 1) & 0xFFFFFFFF
                if dev == 'trig': g['trig'] = trig ^ 0x10
                if dev == 'fee': g['fee'] = fee ^ 1
                if dev == 'page0': g['page'] = 0
            hist.append(g)
            if g['stop'] == 1:
                page = 0
                if R.random() < 0.9: orbit = (orbit + R.randint(1, 3)) & 0xFFFFFFFF
            elif g['stop'] == 0:
                page += 1
        if hi % 7 == 0 and ln >= 2:       # the premise: second header carries page 1
            hist[0]['page'] = 0; hist[1]['page'] = 1
        if hist[1]['page'] != 1: hist[1]['page'] = 1
        reqs.append('running ' + ' '.join(G.rdh_bytes(g).hex().upper() for g in hist)); hmeta.append(hist)
    if not ctx['harness_ok']:
        ck.notes.append('C10: harness unavailable'); return
    impl, model, dis = corr(ck, 'rdh_rules', reqs)
    bad_idx = set()
    for i, a in enumerate(impl[:n_sane]):
        its, first, b = meta[i]
        ck.case((its, b))
        exp = spec_rdh_sane(b, first[0], its)
        ck.count('rdh_sane' if exp else 'rdh_insane')
        if (a == 'ok') != exp:
            bad_idx.add(i)
            ck.violation('rdhsane', {'what': 'RDH sanity verdict deviates from the documented rules', 'its_target': its, 'first_rdh_hex': first.hex(),
                                     'rdh_hex': b.hex(), 'implementation': a, 'specified': 'ok' if exp else 'bad'})
    for j, a in enumerate(impl[n_sane:]):
        hist = hmeta[j]
        exp = spec_running(hist)
        got = [t == '1' for t in a.split(' ')]
        ck.case(('hist', j, len(hist)))
        ck.count('running_reported', sum(exp)); ck.count('running_clean', len(exp) - sum(exp))
        if got != exp:
            bad_idx.add(n_sane + j)
            k = next(i for i in range(min(len(got), len(exp))) if got[i] != exp[i]) if len(got) == len(exp) else -1
            ck.violation('running', {'what': 'RDH running verdict deviates from the documented rules', 'first_differing_index': k,
                                     'history_hex': [G.rdh_bytes(g).hex() for g in hist[:k + 1]], 'implementation': a[:200],
                                     'specified': ' '.join('1' if e else '0' for e in exp)[:200]})
    ck.sample(dict(request=reqs[3][:200], impl=impl[3], model=model[3]))
    ck.sample(dict(request=reqs[n_sane][:300] + '...', impl=impl[n_sane][:80], model=model[n_sane][:80]))
    report_dis(ck, 'rdh_rules', dis, bad_idx)
    # CLI: E10/E11 located at the RDH offset
    pk, _ = G.conforming_stream(R, nlinks=1, max_hbf=3)
    offs = G.offsets(pk)
    k = len(pk) // 2
    pk[k].rdh['res0'] = 1
    data = G.encode(pk)
    r = L.run_cli(['check', 'all', 'its'], data)
    ck.case(('cli_e10',))
    if (offs[k], 'E10') not in {(e[0], e[1]) for e in r.errors} or any(e[1] == 'E10' and e[0] != offs[k] for e in r.errors):
        ck.violation('cli_e10', {'what': 'RDH sanity fault not reported exactly at its RDH offset', 'offset': offs[k], 'errors': r.errors[:10], 'input_hex': data.hex()})
    # CLI matrix: the sanity rule as the *tool* applies it — command x target x custom-checks file. The expected header id is the
    # configured `rdh_version` when a custom-checks file sets one, else the link's first; the ITS system id is required exactly when a
    # target is selected. (The in-process runs above construct the validator directly; this part covers how it is configured.)
    wd = os.path.join(L.CACHE, 'tmp', f'c10_{os.getpid()}'); os.makedirs(wd, exist_ok=True)
    jobs = []
    for rep in range(2 if tier == 'quick' else 10):
        f = base_rdh(R); f.update(link=1, fee=0x1000 | 3, sysid=32, page=0, stop=0)
        hdrs = []
        for i in range(8):      # RDH-only packets, HBFs of two pages; one deviation in the 4th..7th header
            g = dict(f); g.update(page=i % 2, stop=i % 2, orbit=(f['orbit'] + i // 2) & 0xFFFFFFFF, pkt=i)
            hdrs.append(g)
        dev_i = R.randint(3, 7)
        key, val = R.choice([('sysid', 33), ('sysid', 0), ('ver', f['ver'] ^ 1), ('res0', 1), ('prio', 1), ('hsize', 0x41), ('bc', 0xdec), ('dw', 2), (None, None)])
        if key: hdrs[dev_i][key] = val
        data = b''.join(G.rdh_bytes(g) for g in hdrs)
        for cmd in (['check', 'sanity'], ['check', 'all']):
            for tgt in ([], ['its']):
                for tname, toml in (('none', None), ('ver', f'rdh_version = {f["ver"]}\n'), ('ver_other', f'rdh_version = {f["ver"] ^ 1}\n'), ('cdps', 'cdps = 8\n')):
                    jobs.append((rep, cmd + tgt, tname, toml, data, hdrs, f['ver']))

    def job(j):
        rep, args, tname, toml, data, hdrs, ver = j
        extra = []
        if toml is not None:
            pth = os.path.join(wd, f'c_{abs(hash((rep, tuple(args), tname)))}.toml'); open(pth, 'w').write(toml); extra = ['-c', pth]
        return L.run_cli(args + extra + ['-E', '7'], data)
    for j, r in zip(jobs, L.pmap(job, jobs)):
        rep, args, tname, toml, data, hdrs, ver = j
        ck.case(('cli_matrix', rep, tuple(args), tname)); ck.count('cli_matrix_' + tname)
        its = 'its' in args
        expect_id = ver if tname in ('none', 'cdps') else (ver if tname == 'ver' else ver ^ 1)
        want = sorted(64 * i for i, g in enumerate(hdrs) if not spec_rdh_sane(G.rdh_bytes(g), expect_id, its))
        got = sorted(e[0] for e in r.errors if e[1] == 'E10')
        if r.stats is None or got != want or (r.exit == 7) != bool(r.stats['error_stats']['total_errors']):
            ck.violation('cli_matrix', {'what': 'RDH sanity errors of the tool differ from the documented rule (expected header id: configured rdh_version else the first; ITS system id iff a target is selected)',
                                        'args': args, 'custom_checks': toml, 'expected_E10_offsets': want, 'reported_E10_offsets': got, 'exit': r.exit,
                                        'stderr': L.ANSI.sub('', r.stderr)[-300:], 'input_hex': data.hex()})
    shutil.rmtree(wd, ignore_errors=True)


CHECKS = {
    'C09': dict(modules=['FastPasta.Props.C09'], needs_harness=True, corr='fsm_step', run=run_c09,
                theorems=['FastPasta.C09.fsm_refines_diagram_step', 'FastPasta.C09.fsm_refines_diagram', 'FastPasta.C09.illegal_never_silent',
                          'FastPasta.C09.reachable_states', 'FastPasta.C09.start_related', 'FastPasta.C09.ambiguity_reported',
                          'FastPasta.C09.table_ok', 'FastPasta.C09.step_ok',
                          # tie by translation: the model's step function = the function generated from the Rust source on this run
                          'FastPasta.C09.fsmStep_eq_src', 'FastPasta.C09.fsmAdvance_eq_src', 'FastPasta.C09.ids_eq_src', 'FastPasta.C09.initial_eq_src',
                          'FastPasta.C09.src_table', 'FastPasta.C09.fsmAdvance_eq_src_flags']),
    'C10': dict(modules=['FastPasta.Props.C10'], needs_harness=True, corr='rdh_rules', run=run_c10,
                theorems=['FastPasta.C10.sanity_iff', 'FastPasta.C10.sanity_ignores_reserved', 'FastPasta.C10.running_iff',
                          'FastPasta.C10.step_inv', 'FastPasta.C10.expectedPage_snoc', 'FastPasta.C10.run_spec',
                          # tie by translation (tools/rs2lean.py -> Spec/RdhSrcGen.lean): loader, accessors, RdhCruSanityValidator and its constructors
                          'FastPasta.C10.sanity_src_iff', 'FastPasta.C10.validator_states_src', 'FastPasta.C10.loader_src',
                          'FastPasta.C10.running_src_iff', 'FastPasta.C10.srcRunFlags_eq', 'FastPasta.C10.running_src_code', 'FastPasta.C10.validator_for_config_src', 'FastPasta.C10.link_rdh_checks_src']),
    'C11': dict(modules=['FastPasta.Props.C11'], needs_harness=True, corr='word_sanity', run=run_c11,
                theorems=['FastPasta.C11.ihw_sane_iff', 'FastPasta.C11.tdh_sane_iff', 'FastPasta.C11.tdt_sane_iff', 'FastPasta.C11.ddw0_sane_iff',
                          'FastPasta.C11.data_reported_iff', 'FastPasta.C11.data_reported_sanity_iff', 'FastPasta.C11.valid_id_iff',
                          'FastPasta.C11.fsm_data_id_eq', 'FastPasta.C11.ob_lane_eq',
                          # tie by translation (tools/rs2lean.py -> Spec/WordsSrcGen.lean): the same statements about the source's own functions
                          'FastPasta.C11.ihw_src_check_iff', 'FastPasta.C11.tdh_src_check_iff', 'FastPasta.C11.tdt_src_check_iff', 'FastPasta.C11.ddw0_src_check_iff',
                          'FastPasta.C11.data_src_checks', 'FastPasta.C11.accessors_src', 'FastPasta.C11.lanes_src']),
    'C12': dict(modules=['FastPasta.Props.C12'], needs_harness=True, corr='cutter', run=run_c12,
                theorems=['FastPasta.C12.cut_format2', 'FastPasta.C12.cut_format0', 'FastPasta.C12.cut_overpadded',
                          'FastPasta.C12.overpadded_reported_and_reset', 'FastPasta.C12.words_examined_are_cut', 'FastPasta.C12.cut_words_len10_v2',
                          # tie by translation (tools/rs2lean.py -> Spec/PayloadSrcGen.lean)
                          'FastPasta.C12.preprocess_src_eq', 'FastPasta.C12.preprocess_src_err_iff']),
}
