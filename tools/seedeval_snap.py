#!/usr/bin/env python3
"""seedeval_snap.py <seeds-dir> [--props C01,C02,...] [id ...]

Evaluate seeded code changes WITHOUT touching /repo or the live /verif: meant to be started with
    vp run --with-repo -- python3 tools/seedeval_snap.py /tmp/seedout
i.e. inside a snapshot of the committed /verif (its own lean/.lake and .cache) and against the snapshot copy of /repo's HEAD
($VP_RUN_REPO). For every <seeds-dir>/<id>/patch.diff: apply it to the copy, run the quick checks WITH the proof step (the
translators regenerate Spec/*SrcGen.lean from the changed source, so a broken tie shows up as a broken proof obligation),
undo it. Result: <seeds-dir>/<id>/eval.json  {Cxx: {exit, violations, tags, wall}}. Not a registered check."""
import json, os, re, subprocess, sys, time
ROOT = os.path.dirname(os.path.dirname(os.path.abspath(__file__)))
ALL = ['C%02d' % i for i in range(1, 21)]


def main():
    args = sys.argv[1:]
    seeds = os.path.abspath(args.pop(0))
    props = ALL
    own_plus = None
    if args and args[0] == '--props':
        args.pop(0); props = args.pop(0).split(',')
    if args and args[0] == '--own-plus':        # per seed: the property it was written against plus these
        args.pop(0); own_plus = [x for x in args.pop(0).split(',') if x]
    ids = args or sorted(d for d in os.listdir(seeds) if os.path.exists(os.path.join(seeds, d, 'patch.diff')))
    repo = os.environ.get('VP_RUN_REPO') or os.environ.get('VERIF_REPO')
    assert repo and os.path.isdir(repo) and os.path.realpath(repo) != '/repo', 'needs a scratch copy of the repository ($VP_RUN_REPO)'
    env = dict(os.environ, VERIF_REPO=repo)
    # the in-process harness has a path dependency on the repository: point it at the copy (this is a snapshot of /verif)
    ct = os.path.join(ROOT, 'harness', 'Cargo.toml')
    s = open(ct).read().replace('"/repo/', '"' + repo.rstrip('/') + '/')
    open(ct, 'w').write(s)
    print('setup …', flush=True)
    r = subprocess.run([sys.executable, os.path.join(ROOT, 'tools', 'setup.py')], env=env, capture_output=True, text=True)
    print(r.stdout[-600:], flush=True)
    # baseline on the unchanged copy: a check that alarms here would make the evaluation meaningless
    base = {}
    for p in props:
        r = subprocess.run([sys.executable, os.path.join(ROOT, 'tools', 'check.py'), p], capture_output=True, text=True, env=env)
        base[p] = r.returncode
    print('BASELINE', {p: c for p, c in base.items() if c != 0} or 'clean', flush=True)
    for sid in ids:
        patch = os.path.join(seeds, sid, 'patch.diff')
        a = subprocess.run(['git', 'apply', patch], cwd=repo, capture_output=True, text=True)
        if a.returncode != 0:
            print(sid, 'APPLY FAILED', a.stderr[-300:], flush=True); continue
        res = {}
        plist = props if own_plus is None else sorted(set([sid[:3]] + own_plus))
        try:
            for p in plist:
                t = time.time()
                r = subprocess.run([sys.executable, os.path.join(ROOT, 'tools', 'check.py'), p], capture_output=True, text=True, env=env)
                lines = [l for l in r.stdout.splitlines() if l.startswith('VIOLATION')]
                tags = []
                for l in lines:
                    f = l.split('replay=')[1].split()[0]
                    try: tags.append(json.load(open(f)).get('tag', '?'))
                    except Exception: tags.append('?')
                res[p] = dict(exit=r.returncode, violations=len(lines), tags=sorted(set(tags)), nfi=sum('no-failing-input-found' in l for l in lines),
                              wall=round(time.time() - t, 1))
        finally:
            subprocess.run(['git', 'apply', '-R', patch], cwd=repo, check=True)
        res['_baseline_alarms'] = [p for p, c in base.items() if c != 0]
        json.dump(res, open(os.path.join(seeds, sid, 'eval.json'), 'w'), indent=1)
        print(sid, 'CAUGHT-BY', [p for p in plist if res[p]['exit'] != 0], {p: res[p]['tags'] for p in plist if res[p]['exit'] != 0}, 'ran', plist, flush=True)


if __name__ == '__main__':
    main()
