#!/usr/bin/env python3
"""src2lean — translate the ITS payload state machine of the *source code* into a Lean function.

Input : /repo/fastpasta/src/analyze/validators/its/its_payload_fsm_cont.rs  (the `sm!` block and the
        `match current_state { ... }` of `advance`), and the `pub const ID: u8 = ..;` lines of
        /repo/fastpasta/src/words/its/status_words/{ihw,tdh,tdt,ddw,cdw}.rs
Output: FastPasta/Spec/FsmSrcGen.lean — `SrcFsm.step : FsmSt → Nat → Bool → Bool → FsmSt × WordClass`,
        the arms of `advance` in source order (first matching arm wins, as in a Rust `match`), the successor
        computed from the `sm!` transition table, plus the identifier constants and `SrcFsm.initial`.

The theorem `C09.fsmStep_eq_src` (Proofs/FsmSrcTie.lean) then states, for all states, all 256 identifiers and
both flag bits, that the hand-written model `fsmStep` IS this function (kernel evaluation). So every theorem
about the model's state machine is re-checked on every run against what the code says now; a change of the
source table or of an arm changes the generated function and breaks that proof obligation.

The translator understands exactly the constructs this file uses; anything else is an error (exit 2), which the
check reports as a broken tie.
"""
import re, sys

VARIANT2LEAN = {
    'InitialIHW_': 'initialIhw', 'TDH_By_WasIhw': 'tdhByWasIhw', 'DDW0_or_TDH_or_IHW_By_NoDataTrue': 'choiceByNoDataTrue',
    'DATA_By_NoDataFalse': 'dataByNoDataFalse', 'DATA_By_WasData': 'dataByWasData',
    'c_IHW_By_WasTDTpacketDoneFalse': 'cIhwByTdtFalse', 'c_TDH_By_Next': 'cTdhByNext', 'c_DATA_By_Next': 'cDataByNext',
    'c_DATA_By_WasData': 'cDataByWasData', 'DDW0_or_TDH_or_IHW_By_WasTDTpacketDoneTrue': 'choiceByTdtTrue',
    'IHW_By_WasDdw0': 'ihwByWasDdw0',
}
RESULT2LEAN = {
    'Ok(ItsPayloadWord::IHW)': 'ihw', 'Ok(ItsPayloadWord::IHW_continuation)': 'ihwCont', 'Ok(ItsPayloadWord::TDH)': 'tdh',
    'Ok(ItsPayloadWord::TDH_continuation)': 'tdhCont', 'Ok(ItsPayloadWord::TDH_after_packet_done)': 'tdhAfterPacketDone',
    'Ok(ItsPayloadWord::TDT)': 'tdt', 'Ok(ItsPayloadWord::CDW)': 'cdw', 'Ok(ItsPayloadWord::DataWord)': 'dataWord',
    'Ok(ItsPayloadWord::DDW0)': 'ddw0', 'Err(AmbigiousError::TDH_or_DDW0)': 'errTdhOrDdw0',
    'Err(AmbigiousError::DW_or_TDT_CDW)': 'errDwOrTdtCdw', 'Err(AmbigiousError::DDW0_or_TDH_IHW)': 'errDdw0OrTdhIhw',
}
GUARD2LEAN = {'tdt_packet_done(gbt_word)': 'packetDone', '!tdt_packet_done(gbt_word)': '!packetDone',
              'tdh_no_data(gbt_word)': 'noData', '!tdh_no_data(gbt_word)': '!noData'}
ID_FILES = {'Ihw': 'ihw.rs', 'Tdh': 'tdh.rs', 'Tdt': 'tdt.rs', 'Ddw0': 'ddw.rs', 'Cdw': 'cdw.rs'}


class TranslateError(Exception):
    pass


def strip_comments(t):
    t = re.sub(r'/\*.*?\*/', '', t, flags=re.S)
    return '\n'.join(l.split('//')[0] for l in t.split('\n'))


def block_after(text, start):
    """text[start] must be an opening bracket; returns (inner, index after the closing bracket)"""
    op = text[start]; cl = {'{': '}', '(': ')', '[': ']'}[op]
    depth = 0
    for i in range(start, len(text)):
        if text[i] == op: depth += 1
        elif text[i] == cl:
            depth -= 1
            if depth == 0: return text[start + 1:i], i + 1
    raise TranslateError('unbalanced ' + op)


def split_top(text, sep=','):
    out, depth, cur = [], 0, ''
    for ch in text:
        if ch in '({[': depth += 1
        elif ch in ')}]': depth -= 1
        if ch == sep and depth == 0:
            out.append(cur); cur = ''
        else: cur += ch
    if cur.strip(): out.append(cur)
    return [x.strip() for x in out]


def parse_sm(text):
    m = re.search(r'sm!\s*\{', text)
    if not m: raise TranslateError('no sm! block')
    inner, _ = block_after(text, m.end() - 1)
    m2 = re.search(r'(\w+)\s*\{', inner)
    body, _ = block_after(inner, m2.end() - 1)
    trans, initial = {}, None
    pos = 0
    while True:
        m3 = re.compile(r'(\w+)\s*\{').search(body, pos)
        if not m3: break
        blk, pos = block_after(body, m3.end() - 1)
        name = m3.group(1)
        if name == 'InitialStates':
            initial = [x.strip() for x in blk.split(',') if x.strip()]
            continue
        table = {}
        for item in split_top(blk):
            if not item: continue
            mm = re.fullmatch(r'(\w+)\s*=>\s*(\w+)', item)
            if not mm: raise TranslateError('sm! entry not understood: ' + item)
            table[mm.group(1)] = mm.group(2)
        trans[name] = table
    if not initial or len(initial) != 1: raise TranslateError('expected exactly one initial state')
    return trans, initial[0]


def state_of_variant(v, events):
    if v.startswith('Initial'): return v[len('Initial'):]
    for e in sorted(events, key=len, reverse=True):
        if v.endswith('By' + e): return v[:-len('By' + e)]
    raise TranslateError('variant name not understood: ' + v)


def next_variant(v, ev, trans):
    st = state_of_variant(v, trans.keys())
    if ev not in trans or st not in trans[ev]:
        raise TranslateError(f'transition {ev} is not defined from state {st} (variant {v})')   # would not compile in Rust either
    return trans[ev][st] + 'By' + ev


def lean_state(v):
    if v not in VARIANT2LEAN: raise TranslateError('state variant unknown to the model: ' + v)
    return '.' + VARIANT2LEAN[v]


def lean_result(r):
    r = re.sub(r'\s+', '', r)
    if r not in RESULT2LEAN: raise TranslateError('result not understood: ' + r)
    return '.' + RESULT2LEAN[r]


def trans_expr(expr, v, trans):
    """-> Lean expression of the successor state"""
    expr = expr.strip()
    m = re.fullmatch(r'stm\.transition\(event::(\w+)\)\.as_enum\(\)', re.sub(r'\s+', '', expr))
    if m: return lean_state(next_variant(v, m.group(1), trans))
    m = re.fullmatch(r'if(!?\w+\(gbt_word\))\{stm\.transition\(event::(\w+)\)\.as_enum\(\)\}else\{stm\.transition\(event::(\w+)\)\.as_enum\(\)\}',
                     re.sub(r'\s+', '', expr))
    if m:
        g = GUARD2LEAN.get(m.group(1))
        if not g: raise TranslateError('guard not understood: ' + m.group(1))
        return f'(if {g} then {lean_state(next_variant(v, m.group(2), trans))} else {lean_state(next_variant(v, m.group(3), trans))})'
    raise TranslateError('transition expression not understood: ' + expr)


def pattern(p, ids):
    p = p.strip()
    if p == '_': return 'true'
    alts = []
    for a in p.split('|'):
        a = a.strip()
        m = re.fullmatch(r'(0x[0-9A-Fa-f]+|\d+)\s*\.\.=\s*(0x[0-9A-Fa-f]+|\d+)', a)
        if m: alts.append(f'inRange {int(m.group(1), 0)} {int(m.group(2), 0)} id'); continue
        m = re.fullmatch(r'(\w+)::ID', a)
        if m:
            if m.group(1) not in ids: raise TranslateError('unknown identifier constant ' + a)
            alts.append(f'id == {ids[m.group(1)]}'); continue
        m = re.fullmatch(r'(0x[0-9A-Fa-f]+|\d+)', a)
        if m: alts.append(f'id == {int(a, 0)}'); continue
        raise TranslateError('pattern not understood: ' + a)
    return '(' + ' || '.join(alts) + ')'


def parse_advance(text, trans, ids):
    m = re.search(r'match\s+current_state\s*\{', text)
    if not m: raise TranslateError('match current_state not found')
    body, _ = block_after(text, m.end() - 1)
    arms = []
    pos = 0
    rx = re.compile(r'state::(\w+)\(stm\)\s*=>\s*')
    while True:
        mm = rx.search(body, pos)
        if not mm: break
        v = mm.group(1); i = mm.end()
        if body.startswith('match', i):
            m2 = re.compile(r'match\s+gbt_word\[9\]\s*\{').match(body, i)
            if not m2: raise TranslateError(f'arm {v}: inner match is not on gbt_word[9]')
            inner, pos = block_after(body, m2.end() - 1)
            cases = []
            j = 0
            while True:
                m3 = re.compile(r'\s*(.+?)\s*=>\s*\(', re.S).match(inner, j)
                if not m3: break
                tup, j = block_after(inner, m3.end() - 1)
                j = re.compile(r'\s*,?').match(inner, j).end()
                head = m3.group(1)
                pg = re.split(r'\bif\b', head, maxsplit=1)
                guard = 'true'
                if len(pg) == 2:
                    g = GUARD2LEAN.get(re.sub(r'\s+', '', pg[1]))
                    if not g: raise TranslateError(f'arm {v}: guard not understood: {pg[1]}')
                    guard = g
                parts = split_top(tup)
                if len(parts) != 2: raise TranslateError(f'arm {v}: tuple not understood: {tup}')
                cases.append((pattern(pg[0], ids), guard, trans_expr(parts[0], v, trans), lean_result(parts[1])))
            if inner[j:].strip(): raise TranslateError(f'arm {v}: trailing text not understood: {inner[j:][:80]}')
            if not cases or cases[-1][0] != 'true' or cases[-1][1] != 'true':
                raise TranslateError(f'arm {v}: no final wildcard arm')
            arms.append((v, cases))
        elif body[i] == '(':
            tup, pos = block_after(body, i)
            parts = split_top(tup)
            if len(parts) != 2: raise TranslateError(f'arm {v}: tuple not understood')
            arms.append((v, [('true', 'true', trans_expr(parts[0], v, trans), lean_result(parts[1]))]))
        else:
            raise TranslateError(f'arm {v}: body not understood')
    return arms


def main(fsm_path, words_dir, out_path):
    text = strip_comments(open(fsm_path).read())
    ids = {}
    for name, f in ID_FILES.items():
        t = open(f'{words_dir}/{f}').read()
        m = re.search(r'pub\s+const\s+ID\s*:\s*u8\s*=\s*(0x[0-9A-Fa-f]+|\d+)\s*;', t)
        if not m: raise TranslateError(f'no `pub const ID: u8` in {f}')
        ids[name] = int(m.group(1), 0)
    trans, initial = parse_sm(text)
    arms = parse_advance(text, trans, ids)
    seen = [v for v, _ in arms]
    if sorted(seen) != sorted(VARIANT2LEAN): raise TranslateError(f'state variants of `advance` differ from the model\'s: {sorted(set(seen) ^ set(VARIANT2LEAN))}')
    L = ['-- GENERATED by tools/src2lean.py from the Rust source on every run; do not edit.',
         '-- source: fastpasta/src/analyze/validators/its/its_payload_fsm_cont.rs (sm! block + `advance`), words/its/status_words/*.rs (ID constants)',
         'import FastPasta.Model.Fsm', 'namespace FastPasta', 'namespace SrcFsm', '']
    for name in ID_FILES: L.append(f'def ID_{name.upper()} : Nat := {ids[name]}')
    L += ['', f'def initial : FsmSt := {lean_state("Initial" + initial)}', '',
          '/-- `ItsPayloadFsmContinuous::advance` as written in the source: arms in source order, first match wins -/',
          'def step (s : FsmSt) (id : Nat) (noData packetDone : Bool) : FsmSt × WordClass :=', '  match s with']
    for v, cases in arms:
        L.append(f'  | {lean_state(v)} =>     -- state::{v}')
        for k, (pat, guard, nxt, res) in enumerate(cases):
            cond = pat if guard == 'true' else (guard if pat == 'true' else f'{pat} && {guard}')
            if k == len(cases) - 1: L.append(f'    {"else " if k else ""}({nxt}, {res})')
            else: L.append(f'    {"else " if k else ""}if {cond} then ({nxt}, {res})')
    L += ['', 'end SrcFsm', 'end FastPasta', '']
    new = '\n'.join(L)
    try:
        if open(out_path).read() == new: return      # unchanged: keep the timestamp, lake does not rebuild
    except FileNotFoundError: pass
    open(out_path, 'w').write(new)


if __name__ == '__main__':
    try:
        main(sys.argv[1], sys.argv[2], sys.argv[3])
    except TranslateError as e:
        print('src2lean: cannot translate the source: ' + str(e)); sys.exit(2)
