#!/usr/bin/env python3
"""alpide2lean — translate the ALPIDE byte classifier and the byte-wise lane decoder of the *source code* into Lean.

Input : fastpasta/src/words/its/alpide/alpide_word.rs
            (constants, `AlpideWord::from_byte`, `AlpideWord::match_exact`, `AlpideProtocolExtension::from_byte`)
        fastpasta/src/analyze/validators/its/alpide/lane_alpide_frame_analyzer.rs   (`fn decode`)
Output: FastPasta/Spec/AlpideSrcGen.lean
            SrcAlpide.Ape / SrcAlpide.W      the word kinds of the source
            SrcAlpide.wordOfByte : Nat → W    arms in source order, first match wins
            SrcAlpide.action : Nat → Act      what `decode` does with a byte that reaches the word `match` (field updates)
            SrcAlpide.guards : List Guard     the early-return tests of `decode`, in source order

`Proofs/AlpideSrcTie.lean` proves that the hand-written decoder step `LaneDec.step` is `SrcAlpide.run guards action`
(kernel evaluation over all 256 byte values for the action table; the guard list must be the model's).
Anything the translator does not understand is an error (exit 2): the tie is then reported as broken.
Not translated (tied by correspondence only): `store_bunch_counter`, `log_readout_flags`, the lane checks.
"""
import re, sys
from src2lean import strip_comments, block_after, split_top, TranslateError


def consts_of(text):
    out = {}
    for m in re.finditer(r'const\s+([A-Z0-9_]+)\s*:\s*u8\s*=\s*(0x[0-9A-Fa-f]+|0b[01_]+|\d+)\s*;', text):
        out[m.group(1)] = int(m.group(2).replace('_', ''), 0)
    for m in re.finditer(r'const\s+([A-Z0-9_]+)\s*:\s*RangeInclusive<u8>\s*=\s*(0x[0-9A-Fa-f]+|\d+)\s*\.\.=\s*(0x[0-9A-Fa-f]+|\d+)\s*;', text):
        out[m.group(1)] = (int(m.group(2), 0), int(m.group(3), 0))
    return out


def impl_block(text, name):
    m = re.search(r'impl\s+' + name + r'\s*\{', text)
    if not m: raise TranslateError('impl ' + name + ' not found')
    return block_after(text, m.end() - 1)[0]


def fn_body(text, name):
    m = re.search(r'fn\s+' + name + r'\s*\([^)]*\)\s*(->\s*[^{]+)?\{', text)
    if not m: raise TranslateError('fn ' + name + ' not found')
    return block_after(text, m.end() - 1)[0]


def match_arms(body, scrutinee_rx):
    m = re.search(r'match\s+' + scrutinee_rx + r'\s*\{', body)
    if not m: raise TranslateError('match on ' + scrutinee_rx + ' not found')
    inner, _ = block_after(body, m.end() - 1)
    return [(p, r.strip()) for p, r in split_arms_blocks(inner)]


def split_arms_blocks(inner):
    """arms whose right-hand sides are blocks `{ … }` possibly without separating commas"""
    arms, pos = [], 0
    rx = re.compile(r'\s*(.+?)\s*=>\s*', re.S)
    while True:
        m = rx.match(inner, pos)
        if not m or not m.group(1).strip(): break
        i = m.end()
        if inner.startswith('unsafe', i): i = re.compile(r'unsafe\s*').match(inner, i).end()
        if i < len(inner) and inner[i] == '{':
            blk, pos = block_after(inner, i)
            arms.append((m.group(1).strip(), blk))
        else:
            # expression arm up to the next top-level comma
            depth, j = 0, i
            while j < len(inner) and not (inner[j] == ',' and depth == 0):
                if inner[j] in '({[': depth += 1
                elif inner[j] in ')}]': depth -= 1
                j += 1
            arms.append((m.group(1).strip(), inner[i:j])); pos = j
        pos = re.compile(r'\s*,?\s*').match(inner, pos).end()
        if pos >= len(inner): break
    if inner[pos:].strip(): raise TranslateError('trailing text in match: ' + inner[pos:][:80])
    return arms


def ok_variant(rhs):
    rhs = re.sub(r'\s+', '', rhs).strip('{}').rstrip(',')
    m = re.fullmatch(r'Ok\(AlpideWord::Ape\(AlpideProtocolExtension::(\w+),?\)\)', rhs)
    if m: return ('ape', m.group(1))
    m = re.fullmatch(r'Ok\(AlpideWord::(\w+)\)', rhs)
    if m: return ('w', m.group(1))
    return None


def translate_classifier(text):
    text = strip_comments(text)
    ape_impl = impl_block(text, 'AlpideProtocolExtension'); w_impl = impl_block(text, 'AlpideWord')
    ac, wc = consts_of(ape_impl), consts_of(w_impl)
    # APE exact matches
    ape_arms = []
    for pat, rhs in match_arms(fn_body(ape_impl, 'from_byte'), r'b'):
        if pat == '_':
            if re.sub(r'\s+', '', rhs).rstrip(',') != 'Err(())': raise TranslateError('APE wildcard arm is not Err(())')
            continue
        m = re.fullmatch(r'Self::(\w+)', pat)
        v = ok_variant(rhs)
        if not m or m.group(1) not in ac or not v or v[0] != 'ape': raise TranslateError('APE arm not understood: ' + pat)
        ape_arms.append((ac[m.group(1)], v[1]))
    # word classifier: guarded arms, then match_exact, then the APE table
    w_arms = []
    fb = match_arms(fn_body(w_impl, 'from_byte'), r'b')
    if re.sub(r'\s+', '', fb[-1][1]).rstrip(',') != 'Self::match_exact(b)' or fb[-1][0] != '_': raise TranslateError('from_byte does not end in match_exact')
    for pat, rhs in fb[:-1]:
        v = ok_variant(rhs)
        if not v or v[0] != 'w': raise TranslateError('word arm result not understood: ' + rhs)
        m = re.fullmatch(r'c\s+if\s+c\s*&\s*(0x[0-9A-Fa-f]+)\s*==\s*Self::(\w+)', pat)
        if m and m.group(2) in wc:
            w_arms.append((f'b &&& {int(m.group(1), 0)} == {wc[m.group(2)]}', v[1])); continue
        m = re.fullmatch(r'c\s+if\s+Self::(\w+)\.contains\(&c\)', pat)
        if m and isinstance(wc.get(m.group(1)), tuple):
            lo, hi = wc[m.group(1)]; w_arms.append((f'inRange {lo} {hi} b', v[1])); continue
        raise TranslateError('word arm pattern not understood: ' + pat)
    me = match_arms(fn_body(w_impl, 'match_exact'), r'b')
    if me[-1][0] != '_' or re.sub(r'\s+', '', me[-1][1]).rstrip(',') != 'AlpideProtocolExtension::from_byte(b)': raise TranslateError('match_exact does not end in the APE table')
    for pat, rhs in me[:-1]:
        m = re.fullmatch(r'Self::(\w+)', pat); v = ok_variant(rhs)
        if not m or m.group(1) not in wc or not v or v[0] != 'w': raise TranslateError('match_exact arm not understood: ' + pat)
        w_arms.append((f'b == {wc[m.group(1)]}', v[1]))
    return w_arms, ape_arms


STMT = [
    (r'self\.skip_n_bytes=(\d+)', lambda m: ('skip', int(m.group(1)))),
    (r'self\.is_header_seen=(true|false)', lambda m: ('header', m.group(1) == 'true')),
    (r'self\.last_chip_id=alpide_byte&0b1111', lambda m: ('lastChip', True)),
    (r'self\.next_is_bc=true', lambda m: ('nextBc', True)),
    (r'self\.alpide_stats\.log_readout_flags\(alpide_byte\)', lambda m: ('logFlags', True)),
    (r'self\.lane_status_fatal=true', lambda m: ('fatal', True)),
    (r'hint::unreachable_unchecked\(\)', lambda m: ('unreachable', True)),
]


def stmts_to_act(block):
    """field updates of one arm -> dict"""
    act = {}
    txt = block
    # drop logging macros (arguments may contain format strings with braces/commas)
    while True:
        m = re.search(r'log::(trace|debug|info|warn|error)!\s*\(', txt)
        if not m: break
        _, end = block_after(txt, m.end() - 1)
        txt = txt[:m.start()] + txt[end:]
    for st in [x for x in re.sub(r'\s+', '', txt).replace('unsafe', '').replace('{', ';').replace('}', ';').split(';') if x]:
        for rx, f in STMT:
            mm = re.fullmatch(rx, st)
            if mm:
                k, v = f(mm); act[k] = v; break
        else:
            raise TranslateError('statement of `decode` not understood: ' + st[:80])
    return act


def act_lean(a):
    return ('{ skip := %s, header := %s, lastChip := %s, nextBc := %s, logFlags := %s, fatal := %s }' %
            ('some %d' % a['skip'] if 'skip' in a else 'none', ('some %s' % str(a['header']).lower()) if 'header' in a else 'none',
             str(a.get('lastChip', False)).lower(), str(a.get('nextBc', False)).lower(), str(a.get('logFlags', False)).lower(), str(a.get('fatal', False)).lower()))


def translate_decode(text, apes):
    text = strip_comments(text)
    body = fn_body(text, 'decode')
    # --- early-return guards, in order
    guards = []
    pos = 0
    while True:
        m = re.compile(r'\s*(?:log::\w+!\s*\()', re.S).match(body, pos)
        if m:
            _, pos = block_after(body, m.end() - 1); pos = re.compile(r'\s*;').match(body, pos).end(); continue
        m = re.compile(r'\s*if\s+(.+?)\s*\{', re.S).match(body, pos)
        if not m: break
        cond = re.sub(r'\s+', '', m.group(1))
        blk, pos = block_after(body, m.end() - 1)
        b = re.sub(r'\s+', '', strip_comments(blk))
        if cond == 'self.skip_n_bytes>0' and b == 'self.skip_n_bytes-=1;return;': guards.append('.skipping')
        elif cond == 'self.next_is_bc' and re.fullmatch(r'ifletErr\(msg\)=self\.store_bunch_counter\(alpide_byte\)\{self\.errors\.as_mut\(\)\.unwrap\(\)\.push_str\(&msg\);\}self\.next_is_bc=false;return;', b): guards.append('.bunchCounter')
        elif cond == '!self.is_header_seen&&alpide_byte==0' and b == 'return;': guards.append('.padding')
        else: raise TranslateError('early-return test of `decode` not understood: if ' + cond + ' { ' + b[:80])
    # --- the word match
    m = re.compile(r'\s*match\s+AlpideWord::from_byte\(alpide_byte\)\s*\{', re.S).match(body, pos)
    if not m: raise TranslateError('`decode` does not continue with match AlpideWord::from_byte(alpide_byte)')
    inner, pos = block_after(body, m.end() - 1)
    if body[pos:].strip(): raise TranslateError('text after the word match of `decode`')
    top = split_arms_blocks(inner)
    if [p for p, _ in top] != ['Ok(word)', 'Err(_)']: raise TranslateError('outer arms of the word match are not Ok(word) / Err(_)')
    if stmts_to_act(top[1][1]): raise TranslateError('the Err(_) arm of `decode` is expected to only log')
    m = re.compile(r'\s*match\s+word\s*\{', re.S).match(top[0][1])
    if not m: raise TranslateError('Ok(word) arm is not `match word`')
    winner, _ = block_after(top[0][1], m.end() - 1)
    wacts, apeacts, ape_default = {}, {}, None
    for pat, blk in split_arms_blocks(winner):
        mm = re.fullmatch(r'AlpideWord::(\w+)', pat)
        if mm:
            wacts[mm.group(1)] = stmts_to_act(blk); continue
        mm = re.fullmatch(r'AlpideWord::Ape\((\w+)\)', pat)
        if not mm: raise TranslateError('word arm of `decode` not understood: ' + pat)
        m2 = re.compile(r'\s*match\s+' + mm.group(1) + r'\s*\{', re.S).match(blk if blk.strip().startswith('match') else ' ' + blk)
        src = blk if blk.strip().startswith('match') else blk
        m2 = re.compile(r'\s*match\s+' + mm.group(1) + r'\s*\{', re.S).match(src)
        if not m2: raise TranslateError('APE arm is not a match on the APE')
        ainner, _ = block_after(src, m2.end() - 1)
        for apat, ablk in split_arms_blocks(ainner):
            m3 = re.fullmatch(r'AlpideProtocolExtension::(\w+)', apat)
            if m3: apeacts[m3.group(1)] = stmts_to_act(ablk)
            elif re.fullmatch(r'\w+', apat): ape_default = stmts_to_act(ablk)       # binding catch-all (`fatal_ape`)
            else: raise TranslateError('APE arm not understood: ' + apat)
    if ape_default is None: raise TranslateError('no catch-all APE arm')
    for a in apes:
        if a not in apeacts: apeacts[a] = ape_default
    return guards, wacts, apeacts


def main(word_path, decode_path, out_path):
    w_arms, ape_arms = translate_classifier(open(word_path).read())
    apes = [v for _, v in ape_arms]
    guards, wacts, apeacts = translate_decode(open(decode_path).read(), apes)
    words = []
    for _, v in w_arms:
        if v not in words: words.append(v)
    for v in words:
        if v not in wacts: raise TranslateError('`decode` has no arm for AlpideWord::' + v)
    L = ['-- GENERATED by tools/alpide2lean.py from the Rust source on every run; do not edit.',
         '-- source: fastpasta/src/words/its/alpide/alpide_word.rs, fastpasta/src/analyze/validators/its/alpide/lane_alpide_frame_analyzer.rs (fn decode)',
         'import FastPasta.Spec.AlpideSrc', 'namespace FastPasta', 'namespace SrcAlpide', '',
         'inductive Ape', '  | ' + ' | '.join(apes), '  deriving DecidableEq, Repr', '',
         'inductive W', '  | ' + ' | '.join(words) + ' | ape (a : Ape) | unknown', '  deriving DecidableEq, Repr', '',
         '/-- `AlpideWord::from_byte` → `match_exact` → `AlpideProtocolExtension::from_byte`: arms in source order -/',
         'def wordOfByte (b : Nat) : W :=']
    first = True
    for cond, v in w_arms:
        L.append(f'  {"if" if first else "else if"} {cond} then .{v}'); first = False
    for val, v in ape_arms:
        L.append(f'  else if b == {val} then .ape .{v}')
    L += ['  else .unknown', '', '/-- the field updates of the arm of `decode` that handles the word -/', 'def actOfWord : W → Act']
    for v in words: L.append(f'  | .{v} => {act_lean(wacts[v])}')
    for a in apes:
        act = dict(apeacts[a]); unreachable = act.pop('unreachable', False)
        L.append(f'  | .ape .{a} => {act_lean(act)}' + ('     -- unreachable_unchecked in the source' if unreachable else ''))
    L += ['  | .unknown => {}', '', 'def action (b : Nat) : Act := actOfWord (wordOfByte b)', '',
          '/-- the early-return tests of `decode`, in source order -/', 'def guards : List Guard := [' + ', '.join(guards) + ']', '',
          'end SrcAlpide', 'end FastPasta', '']
    new = '\n'.join(L)
    try:
        if open(out_path).read() == new: return
    except FileNotFoundError: pass
    open(out_path, 'w').write(new)


if __name__ == '__main__':
    try:
        main(sys.argv[1], sys.argv[2], sys.argv[3])
    except TranslateError as e:
        print('alpide2lean: cannot translate the source: ' + str(e)); sys.exit(2)
