#!/usr/bin/env python3
"""seedstore.py — collect confirmed seeded changes from the scratch area into /verif/seeded/<id>-<m>/
(patch.diff, demo, notes.md, meta.json with the confirmation result and which checks caught it)."""
import json, os, re, shutil, sys, glob
ROOT = os.path.dirname(os.path.dirname(os.path.abspath(__file__)))
SRC = '/tmp/wt/out'

def confirms():
    out = {}
    for f in glob.glob(os.path.join(SRC, 'confirm*.log')):
        for l in open(f):
            m = re.match(r'(C\d\d) (m\d) CONFIRM tests=\[(\d+) passed (\d+) failed\] demo_on_mutant=(\d+) demo_on_head=(\d+)', l)
            if m: out[(m.group(1), m.group(2))] = dict(tests_passed=int(m.group(3)), tests_failed=int(m.group(4)), demo_on_mutant=int(m.group(5)), demo_on_head=int(m.group(6)))
    return out

def evals():
    """full evaluations (all 20 checks) updated by later targeted re-evaluations (after checks were strengthened)"""
    out = {}
    files = glob.glob(os.path.join(SRC, 'eval_C*_m*.log')) + glob.glob(os.path.join(SRC, 'reeval_C*_m*.log'))
    for f in sorted(files, key=os.path.getmtime):
        m = re.search(r'eval_(C\d\d)_(m\d)\.log', f)
        txt = open(f).read()
        j = [l for l in txt.splitlines() if l.startswith('{"C')]
        if j:
            out.setdefault((m.group(1), m.group(2)), {}).update(json.loads(j[-1]))
    return out

def main():
    C, E = confirms(), evals()
    for (pid, m), c in sorted(C.items()):
        ok = c['tests_failed'] == 0 and c['demo_on_mutant'] == 0 and c['demo_on_head'] == 1
        if not ok or (pid, m) not in E: continue
        d = os.path.join(ROOT, 'seeded', f'{pid}-{m}')
        os.makedirs(d, exist_ok=True)
        shutil.copy(os.path.join(SRC, pid, f'{m}.diff'), os.path.join(d, 'patch.diff'))
        demo = glob.glob(os.path.join(SRC, pid, f'{m}_demo.*'))[0]
        shutil.copy(demo, os.path.join(d, 'demo' + os.path.splitext(demo)[1]))
        md = os.path.join(SRC, pid, f'{m}.md')
        if os.path.exists(md): shutil.copy(md, os.path.join(d, 'notes.md'))
        files = sorted(set(re.findall(r'^\+\+\+ b/(.*)$', open(os.path.join(d, 'patch.diff')).read(), re.M)))
        res = E[(pid, m)]
        caught = [k for k, v in res.items() if v['exit'] != 0]
        meta = dict(property=pid, mutant=m, files=files, confirmed=c,
                    existing_tests='all pass with the change applied', demo='exits 0 with the change (violation shown), 1 on HEAD',
                    caught_by=caught, caught_by_own_property_check=pid in caught,
                    tags={k: v['tags'] for k, v in res.items() if v['exit'] != 0},
                    how='git -C /repo apply patch.diff; python3 tools/check.py <Cxx>; git -C /repo checkout -- .  (tools/seedeval.py does exactly this)')
        json.dump(meta, open(os.path.join(d, 'meta.json'), 'w'), indent=1)
        print(pid, m, 'caught by', caught)

if __name__ == '__main__':
    main()
