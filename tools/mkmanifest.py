#!/usr/bin/env python3
"""regenerate MANIFEST.json from the claim table below (properties.jsonl is never touched)"""
import json, subprocess, os
ROOT = os.path.dirname(os.path.dirname(os.path.abspath(__file__)))
props = [json.loads(l) for l in open(os.path.join(ROOT, 'properties.jsonl'))]
hook = subprocess.check_output(['git', '-C', '/repo', 'log', '--format=%H', '--grep', '^verif hook']).decode().split()
NOTE = ('Trusted: Lean 4.33 kernel; axioms propext/Classical.choice/Quot.sound only (audited per theorem on every run); the hand-written model '
        '(lean/FastPasta/Model) is tied to /repo only by the correspondence check (differential execution on generated inputs: sampling except '
        'where stated exhaustive); the specification side is my reading of the documentation and of the property text; rustc/std and the crates '
        'the tool links are assumed correct.')
CLAIMS = {
 'C03': ('5.3', 'scan_exact: for every well-framed packet list (any length incl. batch multiples, any header values, payload sizes), every filter, payload loaded or skipped, file or pipe, the model scanner delivers exactly the filtered offset chain with the decoded header and the payload bytes (induction over the packet list through the filter skip loop); encode_decode header round trip. Model tied to the real reader thread (spawn_reader) in-process and to `view rdh` from file and pipe; model-free oracle = independent chain walk.',
         'Lean 4 proof (induction, well-founded scanner) + differential execution + chain-walk oracle'),
 'C08': ('5.8', 'writer_exact / idempotent / partition theorems as corollaries of scan_exact and the header round trip: output = concatenation of exactly the matching packets, well-framed, re-filtering reproduces it, outputs over all key values partition the input. Tied to the real binary (-o file and stdout, file and pipe) byte-for-byte.',
         'Lean 4 proof (corollaries of scan_exact) + byte-exact differential execution of the CLI'),
 'C09': ('5.9', 'Refinement theorem between the model of the word-classification state machine and the documented diagram (machine-translated from the .puml on every run), finite core by kernel evaluation over all states x identifiers x flags, lifted to all word sequences by induction; illegal words proved never silently accepted. The model is tied to the code by an exhaustive product exploration (hook H1): every state x every ID byte x both flags.',
         'Lean 4 refinement proof (decide +kernel over the finite table, induction over word sequences) + exhaustive differential execution of the FSM step'),
 'C10': ('5.10', 'sanity_iff: for all 2^512 headers the model reports the sanity error iff the documented rule list (stated over bit ranges of the header) is violated; running_iff: for every history starting at an HBF start the running error is reported iff the closed-form page-counter/stop/orbit/same-HBF rules are violated (induction with a state invariant). Model tied to RdhCruSanityValidator / RdhCruRunningChecker by differential execution (all 512 single-bit deviations, boundary values, random histories).',
         'Lean 4 proof (bit-range arithmetic, induction over histories) + differential execution'),
 'C11': ('5.11', 'For all 2^80 word values each sanity predicate of the model holds iff the documented bit-level rule holds (four iff theorems); data-word reporting iff theorem over all 256 IDs and every lane mask. Model tied to the implementation by differential execution over all ID bytes, all single/two-bit patterns and random words.',
         'Lean 4 proof (byte-level linear arithmetic, kernel decide over 256 IDs) + differential execution'),
 'C12': ('5.12', 'The cutter is proved to invert both documented payload layouts for every word list (any count, any contents) and to refuse more than 15 trailing 0xFF bytes, upon which exactly one payload error is emitted at the RDH offset and the state machine is reset. Model tied to preprocess_payload by differential execution (both formats, word counts 0..700, padding 0..40, all residues).',
         'Lean 4 proof (list induction) + differential execution'),
 'C14': ('5.14', 'PARTIAL proof: collector counters proved to be sums over the messages in any arrival order; heartbeat-frame and per-bit trigger counters of a run proved equal to closed-form counts over the delivered packets for any number of batches (run_hbfs_trig). The scanner-side counters (RDHs visited/matching, payload bytes, links, FEE IDs), version/format/system id and error totals are decided by the model-free ground-truth oracle on the real statistics file plus model correspondence, not yet by a theorem.',
         'Lean 4 proof (partial: analysed counters) + ground-truth oracle on the statistics file + differential execution'),
 'C18': ('5.18', 'PARTIAL proof: scan_complete_prefix (cut inside an RDH or at a packet boundary: exactly the complete packets are delivered, unchanged) and causality of the validators (findings after a prefix are a prefix of the findings after more packets), combined in truncated_findings_are_prefix. The case "cut inside a payload" and normal termination for every cut are decided by the oracle over every cut position (small streams exhaustively) from file and pipe plus model correspondence.',
         'Lean 4 proof (partial) + exhaustive cut-position exploration of the CLI + differential execution'),
}
checks = []
for pid, (ref, text, tech) in sorted(CLAIMS.items()):
    checks.append(dict(property_id=pid, quick_cmd=f'python3 tools/check.py {pid} --tier quick', thorough_cmd=f'python3 tools/check.py {pid} --tier thorough',
                       evidence_file=f'/verif/evidence/{pid}.json', replay_cmd_template='python3 tools/check.py ' + pid + ' --replay {path}',
                       engine='lean4-proof+correspondence', level_claimed=dict(category='proof', text=text, design_ref='DESIGN.md §' + ref),
                       level_note=NOTE, technique=tech))
na = [dict(property_id=p['id'], reason='not yet claimed in this commit: the executable model exists (lean/FastPasta/Model) and the theorem file and check are being built; to be decided by Lean proof + correspondence as laid out in DESIGN.md §5')
      for p in props if p['id'] not in CLAIMS]
m = dict(version=1, setup_cmd='python3 tools/setup.py',
         hooks=dict(guard='crambl_fastpasta_verif',
                    enable='harness/.cargo/config.toml passes rustflags = ["--cfg","crambl_fastpasta_verif"] for the in-process harness build; hook-enabled CLI builds use RUSTFLAGS="--cfg crambl_fastpasta_verif" with a separate target dir; the release binary under test is built without the guard',
                    baseline_off_cmd='cd /repo && cargo test --workspace --no-fail-fast --offline', source_commits=hook, add_only=True),
         engines=[dict(name='lean4-proof+correspondence', path='/verif/lean, /verif/harness, /verif/tools', serves_properties=sorted(CLAIMS),
                       kind_free_text='Lean 4 model + theorems (lake build, #print axioms audit); Rust in-process harness and CLI runs compared with the compiled Lean driver over a line protocol; model-free oracles per property')],
         checks=checks, notes='See DESIGN.md. Known findings: known_findings.jsonl (KNOWN-FINDING lines, exit 0).', not_applicable=na)
json.dump(m, open(os.path.join(ROOT, 'MANIFEST.json'), 'w'), indent=1)
print('claimed', sorted(CLAIMS))
