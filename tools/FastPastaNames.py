"""leaf names of the statistics file that the modelled comparison (Model.StatsCompare.comparedLeafNames) looks at"""
import re, os
_src = open(os.path.join(os.path.dirname(os.path.dirname(os.path.abspath(__file__))), 'lean', 'FastPasta', 'Model', 'StatsCompare.lean')).read()
COMPARED = set(re.findall(r'"([a-z_0-9]+)"', _src[_src.index('def triggerNames'):]))
