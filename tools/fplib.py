"""fplib — shared machinery of the checks: building (Lean theorems, driver, implementation,
harness), running the implementation (CLI and in-process harness) and the model (driver),
canonicalisation, the axiom audit, evidence and the VIOLATION / KNOWN-FINDING protocol."""
import fcntl, hashlib, json, os, re, shutil, subprocess, sys, tempfile, time

ROOT = os.path.dirname(os.path.dirname(os.path.abspath(__file__)))
CACHE = os.path.join(ROOT, '.cache')
LEAN = os.path.join(ROOT, 'lean')
REPO = os.environ.get('VERIF_REPO', '/repo')      # the registered checks always use /repo; tools/seedeval_snap.py points a snapshot at a scratch copy
DRIVER = os.path.join(LEAN, '.lake', 'build', 'bin', 'fpdriver')
# build output is kept per repository path: cargo does not re-link target/release/fastpasta when it switches between two source
# trees that are both up to date, so a scratch copy (VERIF_REPO, seeded-change experiments) must never share a target directory
# with /repo
_TSFX = '' if os.environ.get('VERIF_REPO', '/repo') == '/repo' else '-' + hashlib.md5(os.environ['VERIF_REPO'].encode()).hexdigest()[:8]
BIN = os.path.join(CACHE, 'target' + _TSFX, 'release', 'fastpasta')
HARNESS = os.path.join(CACHE, 'target-harness' + _TSFX, 'release', 'fp_harness')
HOOKBIN = os.path.join(CACHE, 'target-hook' + _TSFX, 'release', 'fastpasta')
REPLAYS = os.path.join(ROOT, 'replays')
EVIDENCE = os.path.join(ROOT, 'evidence')
if os.environ.get('VERIF_SKIP_PROOF') == '1':      # seeded-change evaluation: keep real evidence/replays untouched
    REPLAYS = os.path.join(CACHE, 'seeded-replays'); EVIDENCE = os.path.join(CACHE, 'seeded-evidence')
ALLOWED_AXIOMS = {'propext', 'Classical.choice', 'Quot.sound'}
TRUSTED_BASE = [
    'Lean 4.33.0 kernel (lake build; thorough tier: leanchecker re-check of the .olean files)',
    'axioms: propext, Classical.choice, Quot.sound only (audited with #print axioms on every property theorem; no sorry, no native_decide, no bv_decide)',
    'the hand-written Lean model of fastPASTA (lean/FastPasta/Model); tied to /repo by the correspondence check (differential execution on generated inputs), which samples; the state machine step, the ALPIDE byte decoder, the word-level functions (loaders, accessors, status/data-word sanity checks, lane mapping, view byte predicates), the RDH loader / sanity validator / running checker, the payload cutter, the whole per-link payload validator of the non-stave modes (CdpRunningValidator::check with all handlers, set_current_rdh, do_payload_checks), LinkValidator::do_rdh_checks, the filter predicate of the scanner and position tracker and the compared statistics fields are in addition TRANSLATED from the Rust source on every run (tools/src2lean.py, alpide2lean.py, rs2lean.py, stats2lean.py -> Spec/*SrcGen.lean) and proved equal to the model (Proofs/*SrcTie.lean) - there the translators (including the guarded source rewrites listed in tools/rsspec/linkval.json and linkrdh.json) are what is trusted',
    'the specification side (lean/FastPasta/Spec, statements in lean/FastPasta/Props) is a reading of doc/checks_list.md, the diagram, README and the property text',
    'rustc/std, clap, serde_json, toml, regex, flume, crossbeam-channel and the OS are assumed correct',
    'tools/*.py, harness/ (generators, canonicaliser, oracles) are trusted test code',
]

RS2LEAN_SPECS = [('words.json', 'WordsSrcGen.lean', 'SrcWords'), ('rdh.json', 'RdhSrcGen.lean', 'SrcRdh'),
                 ('payload.json', 'PayloadSrcGen.lean', 'SrcPayload'),
                 ('stateful.json', 'StateSrcGen.lean', 'SrcState'),
                 ('trigstats.json', 'TrigSrcGen.lean', 'SrcTrig'),
                 ('lanechecks.json', 'LaneSrcGen.lean', 'SrcLane'),
                 ('alpidestats.json', 'AlpStatsSrcGen.lean', 'SrcAlpStats'),
                 ('scanner.json', 'ScanSrcGen.lean', 'SrcScan'),
                 ('linkval.json', 'LinkSrcGen.lean', 'SrcLink'),
                 ('linkrdh.json', 'LinkRdhSrcGen.lean', 'SrcLinkRdh'),
                 ('customstats.json', 'CustomSrcGen.lean', 'SrcCustom'),
                 ('readerstats.json', 'ReaderStatsSrcGen.lean', 'SrcReaderStats')]

os.makedirs(CACHE, exist_ok=True)


def env_offline():
    e = dict(os.environ)
    e['CARGO_NET_OFFLINE'] = 'true'
    e.setdefault('CARGO_TERM_COLOR', 'never')
    return e


class Lock:
    def __init__(self, name='build'):
        self.path = os.path.join(CACHE, name + '.lock')

    def __enter__(self):
        self.f = open(self.path, 'w')
        fcntl.flock(self.f, fcntl.LOCK_EX)
        return self

    def __exit__(self, *a):
        fcntl.flock(self.f, fcntl.LOCK_UN)
        self.f.close()


def sh(cmd, cwd=None, timeout=3600, env=None, input=None):
    p = subprocess.run(cmd, cwd=cwd, timeout=timeout, env=env or env_offline(), input=input,
                       stdout=subprocess.PIPE, stderr=subprocess.STDOUT)
    return p.returncode, p.stdout.decode('utf-8', 'replace')


# ------------------------------------------------------------------ builds
def build_lean(modules):
    """build the given Lean modules plus the driver; returns (ok, log)"""
    with Lock('lean'):
        # the diagram table is regenerated from the repository's documentation on every run
        sh([sys.executable, os.path.join(ROOT, 'tools', 'puml2lean.py'),
            os.path.join(REPO, 'doc', 'ITS_payload_fsm_continuous_mode.puml'),
            os.path.join(LEAN, 'FastPasta', 'Spec', 'DiagramGen.lean')])
        # the state machine of the *source* is translated to Lean on every run (Spec/FsmSrcGen.lean); Proofs/FsmSrcTie.lean proves
        # that the hand-written model is this function. If the source can no longer be translated the generated file is replaced
        # by one that does not compile, so that the tie is reported as broken rather than silently kept from an older run.
        tlog = ''
        for tool, srcs, genname, imp, ns in (
                ('src2lean.py', [os.path.join(REPO, 'fastpasta', 'src', 'analyze', 'validators', 'its', 'its_payload_fsm_cont.rs'),
                                 os.path.join(REPO, 'fastpasta', 'src', 'words', 'its', 'status_words')], 'FsmSrcGen.lean', 'FastPasta.Model.Fsm', 'SrcFsm'),
                ('alpide2lean.py', [os.path.join(REPO, 'fastpasta', 'src', 'words', 'its', 'alpide', 'alpide_word.rs'),
                                    os.path.join(REPO, 'fastpasta', 'src', 'analyze', 'validators', 'its', 'alpide', 'lane_alpide_frame_analyzer.rs')],
                 'AlpideSrcGen.lean', 'FastPasta.Spec.AlpideSrc', 'SrcAlpide')):
            gen = os.path.join(LEAN, 'FastPasta', 'Spec', genname)
            rc0, out0 = sh([sys.executable, os.path.join(ROOT, 'tools', tool)] + srcs + [gen])
            if rc0 != 0:
                msg = out0.strip().replace('\n', ' ')[:400].replace('-/', '- /')
                open(gen, 'w').write(f'import {imp}\n/- ' + msg + f' -/\nnamespace FastPasta\nnamespace {ns}\n'
                                     'theorem source_not_translatable : False := by decide\nend ' + ns + '\nend FastPasta\n')
                tlog += out0
        # general translator (tools/rs2lean.py): pure word / header / payload functions of the source -> Spec/*SrcGen.lean;
        # Proofs/*SrcTie.lean prove the hand-written model equal to them. Same rule: a source that cannot be translated gives a
        # generated file that does not compile.
        for specname, genname, ns in RS2LEAN_SPECS:
            gen = os.path.join(LEAN, 'FastPasta', 'Spec', genname)
            rc0, out0 = sh([sys.executable, os.path.join(ROOT, 'tools', 'rs2lean.py'), os.path.join(ROOT, 'tools', 'rsspec', specname), gen])
            if rc0 != 0:
                msg = out0.strip().replace('\n', ' ')[:400].replace('-/', '- /')
                open(gen, 'w').write('import FastPasta.Spec.RsPrelude\n/- ' + msg + f' -/\nnamespace FastPasta\nnamespace {ns}\n'
                                     'theorem source_not_translatable : False := by decide\nend ' + ns + '\nend FastPasta\n')
                tlog += out0
        # which statistics the comparison of C15 looks at (tools/stats2lean.py): field lists and the shapes of the validate_other chain
        gen = os.path.join(LEAN, 'FastPasta', 'Spec', 'StatsSrcGen.lean')
        rc0, out0 = sh([sys.executable, os.path.join(ROOT, 'tools', 'stats2lean.py'), gen])
        if rc0 != 0:
            msg = out0.strip().replace('\n', ' ')[:400].replace('-/', '- /')
            open(gen, 'w').write('/- ' + msg + ' -/\nnamespace FastPasta\nnamespace SrcStats\n'
                                 'theorem source_not_translatable : False := by decide\nend SrcStats\nend FastPasta\n')
            tlog += out0
        rc, out = sh(['lake', 'build', 'fpdriver'] + list(modules), cwd=LEAN, timeout=3600)
        return rc == 0, tlog + out


def build_impl():
    """rebuild the release binary and the in-process harness from /repo's working tree"""
    with Lock('cargo'):
        e = env_offline()
        e['CARGO_TARGET_DIR'] = os.path.join(CACHE, 'target' + _TSFX)
        rc1, out1 = sh(['cargo', 'build', '--release', '--offline', '-p', 'fastpasta'], cwd=REPO, env=e, timeout=3600)
        e2 = env_offline()
        e2['CARGO_TARGET_DIR'] = os.path.join(CACHE, 'target-harness' + _TSFX)
        # keep the harness lock file in step with the repository's
        try:
            shutil.copyfile(os.path.join(REPO, 'Cargo.lock'), os.path.join(ROOT, 'harness', 'Cargo.lock'))
        except Exception:
            pass
        rc2, out2 = sh(['cargo', 'build', '--release', '--offline'], cwd=os.path.join(ROOT, 'harness'), env=e2, timeout=3600)
        return rc1 == 0, rc2 == 0, out1 + '\n' + out2


def build_hook():
    """release binary of /repo with the verification hooks compiled in (schedule perturbation, traces)"""
    with Lock('cargo-hook'):
        e = env_offline()
        e['CARGO_TARGET_DIR'] = os.path.join(CACHE, 'target-hook' + _TSFX)
        e['RUSTFLAGS'] = '--cfg crambl_fastpasta_verif'
        rc, out = sh(['cargo', 'build', '--release', '--offline', '-p', 'fastpasta'], cwd=REPO, env=e, timeout=3600)
        return rc == 0, out


# ------------------------------------------------------------------ axiom audit
def audit_theorems(module, theorems, more_modules=()):
    """#print axioms for every theorem; returns (ok, {theorem: [axioms]}, log)"""
    src = f'import {module}\n' + ''.join(f'import {m}\n' for m in more_modules) + ''.join(f'#print axioms {t}\n' for t in theorems)
    d = os.path.join(CACHE, 'audit')
    os.makedirs(d, exist_ok=True)
    path = os.path.join(d, module.replace('.', '_') + '_audit.lean')
    open(path, 'w').write(src)
    rc, out = sh(['lake', 'env', 'lean', path], cwd=LEAN, timeout=1200)
    res, ok = {}, rc == 0
    for t in theorems:
        m = re.search(r"'" + re.escape(t) + r"' depends on axioms: \[([^\]]*)\]", out.replace('\n', ' '))
        if m:
            ax = [a.strip() for a in m.group(1).split(',') if a.strip()]
        elif re.search(r"'" + re.escape(t) + r"' does not depend on any axioms", out):
            ax = []
        else:
            ax = None
        res[t] = ax
        if ax is None or any(a not in ALLOWED_AXIOMS for a in ax):
            ok = False
    return ok, res, out


def grep_forbidden():
    """sorry/admit/axiom/native_decide/... outside comments in the Lean sources"""
    bad = []
    pat = re.compile(r'\b(sorry|admit|native_decide|bv_decide|implemented_by|unsafe)\b|^axiom\s|maxHeartbeats\s+0')
    for dp, _, fs in os.walk(os.path.join(LEAN, 'FastPasta')):
        for f in fs:
            if not f.endswith('.lean'): continue
            txt = open(os.path.join(dp, f)).read()
            # strip block and line comments
            txt2 = re.sub(r'/-.*?-/', lambda m: '\n' * m.group(0).count('\n'), txt, flags=re.S)
            for i, line in enumerate(txt2.splitlines(), 1):
                line = line.split('--')[0]
                if pat.search(line):
                    bad.append(f'{os.path.join(dp, f)}:{i}: {line.strip()}')
    return bad


# ------------------------------------------------------------------ running things
def run_driver(requests, timeout=1800):
    data = ('\n'.join(requests) + '\n').encode()
    p = subprocess.run([DRIVER], input=data, stdout=subprocess.PIPE, stderr=subprocess.PIPE, timeout=timeout)
    out = p.stdout.decode().split('\n')
    if out and out[-1] == '': out.pop()
    return out


def run_harness(requests, cfg_args=None, timeout=1800):
    cmd = [HARNESS] + (['--'] + list(cfg_args) if cfg_args else [])
    data = ('\n'.join(requests) + '\n').encode()
    p = subprocess.run(cmd, input=data, stdout=subprocess.PIPE, stderr=subprocess.PIPE, timeout=timeout)
    out = p.stdout.decode().split('\n')
    if out and out[-1] == '': out.pop()
    return out


ANSI = re.compile(r'\x1b\[[0-9;]*[A-Za-z]')
ERR_RE = re.compile(r'^0x([0-9A-F]+): ')
CODE_RE = re.compile(r'\[E([0-9]{2,4})\]')
WORD_RE = re.compile(r'\[([0-9A-F]{2}(?: [0-9A-F]{2}){9})\]')


def canon_error(msg):
    """'0x<OFF>: [E<code>] ... [b0 .. b9]' -> (offset, code, wordhex|None)"""
    m = ERR_RE.match(msg)
    if not m: return (None, '?', None)
    off = int(m.group(1), 16)
    rest = msg[m.end():]
    c = CODE_RE.match(rest)
    if c: code = 'E' + c.group(1)
    elif rest.startswith('Payload error'): code = 'PAYLOAD'
    else: code = '?'
    word = None
    if code not in ('E10', 'E11') and msg.rstrip().endswith(']'):
        ws = WORD_RE.findall(msg)
        if ws: word = ws[-1].replace(' ', '')
    return (off, code, word)


class CliResult:
    pass


def run_cli(args, data=None, via='file', path=None, stats=True, timeout=120, workdir=None, extra_env=None):
    """run the release binary; `data` bytes fed as file or through stdin"""
    wd = workdir or tempfile.mkdtemp(prefix='fpcli', dir=os.path.join(CACHE, 'tmp'))
    os.makedirs(wd, exist_ok=True)
    cmd = [BIN]
    inp = None
    if via == 'file':
        if path is None:
            path = os.path.join(wd, 'in.raw')
            open(path, 'wb').write(data)
        cmd.append(path)
    else:
        inp = data if data is not None else open(path, 'rb').read()
    cmd += list(args)
    spath = None
    if stats:
        spath = os.path.join(wd, 'stats.json')
        cmd += ['-S', spath, '-D', 'json']
    env = dict(os.environ); env['RUST_BACKTRACE'] = '0'
    if extra_env: env.update(extra_env)
    t0 = time.time()
    r = CliResult()
    try:
        if via == 'pipe_bursty':
            # a producer that delivers the stream in two bursts with a pause in between (a slow upstream tool)
            import threading
            pr = subprocess.Popen(cmd, stdin=subprocess.PIPE, stdout=subprocess.PIPE, stderr=subprocess.PIPE, env=env)
            cut = max(1, len(inp) * 55 // 100)

            def feed():
                try:
                    pr.stdin.write(inp[:cut]); pr.stdin.flush(); time.sleep(1.2); pr.stdin.write(inp[cut:])
                except Exception: pass
                try: pr.stdin.close()
                except Exception: pass
            th = threading.Thread(target=feed, daemon=True); th.start()
            out, err = b'', b''
            try:
                pr.stdin_closed_by_feeder = True
                so, se = [], []
                t1 = threading.Thread(target=lambda: so.append(pr.stdout.read()), daemon=True); t1.start()
                t2 = threading.Thread(target=lambda: se.append(pr.stderr.read()), daemon=True); t2.start()
                pr.wait(timeout=timeout); t1.join(10); t2.join(10); th.join(10)
                out, err = (so[0] if so else b''), (se[0] if se else b'')
                r.exit = pr.returncode; r.stdout = out; r.stderr = err.decode('utf-8', 'replace'); r.timeout = False
            except subprocess.TimeoutExpired:
                pr.kill(); pr.wait()
                r.exit = None; r.stdout = b''; r.stderr = ''; r.timeout = True
        else:
            p = subprocess.run(cmd, input=inp, stdout=subprocess.PIPE, stderr=subprocess.PIPE, timeout=timeout, env=env,
                               stdin=None if inp is not None else subprocess.DEVNULL)
            r.exit = p.returncode; r.stdout = p.stdout; r.stderr = p.stderr.decode('utf-8', 'replace'); r.timeout = False
    except subprocess.TimeoutExpired as e:
        r.exit = None; r.stdout = e.stdout or b''; r.stderr = (e.stderr or b'').decode('utf-8', 'replace'); r.timeout = True
    r.wall = time.time() - t0
    r.stats = None
    if spath and os.path.exists(spath):
        try: r.stats = json.load(open(spath))
        except Exception: r.stats = None
    r.cmd = cmd; r.workdir = wd
    r.errors = []
    if r.stats:
        r.errors = [canon_error(m) for m in r.stats['error_stats']['reported_errors']]
    if workdir is None:
        shutil.rmtree(wd, ignore_errors=True)
    return r


def stderr_errors(stderr):
    """error lines shown on stderr, in order: list of (offset, code)"""
    out = []
    for line in ANSI.sub('', stderr).split('\n'):
        m = re.match(r'^ERROR (?:\x1b\[[0-9;]*m)?0x([0-9A-F]+): (?:\[E([0-9]{2,4})\]|Payload error)?', line)
        if m:
            out.append((int(m.group(1), 16), 'E' + m.group(2) if m.group(2) else 'PAYLOAD'))
        elif line.startswith('ERROR [E'):
            out.append((None, line[7:line.index(']')]))
        elif line.startswith('ERROR FATAL'):
            out.append((None, 'FATAL'))
    return out


os.makedirs(os.path.join(CACHE, 'tmp'), exist_ok=True)


# ------------------------------------------------------------------ results / evidence
class Check:
    """collects what a run covered and decides the exit status"""

    def __init__(self, pid, tier, seed):
        self.pid, self.tier, self.seed = pid, tier, seed
        self.t0 = time.time()
        self.violations = []      # (replay_path, has_input)
        self.known = []
        self.notes = []
        self.obligations = []
        self.discharged = 0
        self.axioms = {}
        self.cases = 0
        self.nontrivial = set()
        self.samples = []
        self.dist = {}
        self.corr = {}
        self.checker_cmd = ''
        os.makedirs(REPLAYS, exist_ok=True); os.makedirs(EVIDENCE, exist_ok=True)
        for f in os.listdir(REPLAYS):          # replays of earlier runs of this property
            if f.startswith(pid + '_'):
                try: os.remove(os.path.join(REPLAYS, f))
                except OSError: pass
        kf = os.path.join(ROOT, 'known_findings.jsonl')
        self.known_findings = []
        if os.path.exists(kf):
            for l in open(kf):
                l = l.strip()
                if l and not l.startswith('#'):
                    self.known_findings.append(json.loads(l))

    def count(self, key, n=1): self.dist[key] = self.dist.get(key, 0) + n

    def case(self, signature=None):
        self.cases += 1
        if signature is not None:
            self.nontrivial.add(hashlib.sha1(repr(signature).encode()).hexdigest()[:16])

    def sample(self, s, limit=4):
        if len(self.samples) < limit: self.samples.append(s)

    def replay_path(self, tag):
        return os.path.join(REPLAYS, f'{self.pid}_{tag}_{self.seed}_{len(self.violations)}.json')

    def violation(self, tag, detail, has_input=True, key=None):
        """record a violation unless it matches an open known finding (by key)"""
        if key is not None:
            for k in self.known_findings:
                if k.get('property') == self.pid and k.get('status') == 'open' and k.get('key') == key:
                    if key not in [x[0] for x in self.known]:
                        self.known.append((key, k.get('what', '')))
                    return False
        self.tagcount = getattr(self, 'tagcount', {})
        self.tagcount[tag] = self.tagcount.get(tag, 0) + 1
        if self.tagcount[tag] > 3:      # at most three replays per kind of violation
            return True
        path = self.replay_path(tag)
        detail = dict(detail); detail['property'] = self.pid; detail['seed'] = self.seed; detail['tag'] = tag
        json.dump(detail, open(path, 'w'), indent=1, default=lambda o: o.hex() if isinstance(o, (bytes, bytearray)) else str(o))
        self.violations.append((path, has_input))
        return True

    def finish(self, level='proof', extra_cov=None, assumptions=None):
        wall = time.time() - self.t0
        cov = {
            'obligations': len(self.obligations), 'discharged': self.discharged,
            'checker_cmd': self.checker_cmd, 'trusted_base': TRUSTED_BASE,
            'theorems': self.obligations, 'axioms': self.axioms,
            'evaluations': self.cases, 'distinct_nontrivial': len(self.nontrivial),
            'rule': 'correspondence/oracle cases generated from VERIF_SEED; a case is distinct by the hash of its canonical input signature; non-trivial = exercised at least one modelled decision (see distribution)',
            'samples': self.samples if self.samples else ['(none)'],
            'distribution': self.dist, 'correspondence': self.corr, 'notes': self.notes,
            'known_findings_matched': [k for k, _ in self.known],
        }
        if extra_cov: cov.update(extra_cov)
        ev = {'property_id': self.pid, 'tier': self.tier, 'seed': self.seed, 'level': level, 'coverage': cov,
              'assumptions': assumptions or [], 'wall_s': round(wall, 2), 'violations': len(self.violations)}
        json.dump(ev, open(os.path.join(EVIDENCE, f'{self.pid}.json'), 'w'), indent=1)
        for key, what in self.known:
            print(f'KNOWN-FINDING: property={self.pid} {key}: {what}')
        for path, has_input in self.violations:
            print(f'VIOLATION property={self.pid} replay={path}' + ('' if has_input else ' no-failing-input-found'))
        sys.stdout.flush()
        return 1 if self.violations else 0


def pmap(fn, items, workers=14):
    from concurrent.futures import ThreadPoolExecutor
    with ThreadPoolExecutor(max_workers=workers) as ex:
        return list(ex.map(fn, items))
