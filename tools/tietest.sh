#!/bin/bash
# tietest.sh <scratch-worktree-of-/repo> <patch.diff> <Lean module>  —  development aid, not a registered check.
# Does the translated-source tie ALONE (no input generated, no binary built) notice a code change? Applies the patch in the scratch
# worktree, regenerates every Spec/*SrcGen.lean from it (VERIF_REPO), builds the given property module, restores the generated files
# and the worktree. Prints TRANSLATE-FAIL(<spec>), BUILD-ERRORS: <n> or GEN-UNCHANGED.
WT=$(realpath "$1"); P=$(realpath "$2"); MOD=$3
ROOT=$(cd "$(dirname "$0")/.." && pwd)
cd "$WT" && git checkout -q -- . && git apply "$P" || { echo APPLYFAIL; exit 2; }
cd "$ROOT"
BAK=$(mktemp -d); cp lean/FastPasta/Spec/*SrcGen.lean "$BAK"/
fail=0
for pair in words:WordsSrcGen rdh:RdhSrcGen payload:PayloadSrcGen stateful:StateSrcGen trigstats:TrigSrcGen lanechecks:LaneSrcGen alpidestats:AlpStatsSrcGen scanner:ScanSrcGen linkval:LinkSrcGen linkrdh:LinkRdhSrcGen customstats:CustomSrcGen readerstats:ReaderStatsSrcGen; do
  sp=${pair%%:*}; G=${pair##*:}
  VERIF_REPO="$WT" python3 tools/rs2lean.py tools/rsspec/$sp.json lean/FastPasta/Spec/$G.lean > "$BAK"/tr.log 2>&1 || { echo "TRANSLATE-FAIL($sp): $(head -c 200 "$BAK"/tr.log)"; fail=1; }
done
VERIF_REPO="$WT" python3 tools/stats2lean.py lean/FastPasta/Spec/StatsSrcGen.lean > "$BAK"/tr.log 2>&1 || { echo "TRANSLATE-FAIL(stats): $(head -c 200 "$BAK"/tr.log)"; fail=1; }
if [ $fail -eq 0 ]; then
  if diff -rq lean/FastPasta/Spec "$BAK" 2>/dev/null | grep -q SrcGen; then (cd lean && lake build "$MOD" 2>&1 | grep -c "error:" | sed 's/^/BUILD-ERRORS: /'); else echo GEN-UNCHANGED; fi
fi
cp "$BAK"/*SrcGen.lean lean/FastPasta/Spec/; rm -rf "$BAK"
cd "$WT" && git checkout -q -- .
