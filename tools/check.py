#!/usr/bin/env python3
"""check.py <Cxx> [--tier quick|thorough] [--replay file]

Decision procedure of one property (DESIGN.md §2.5):
 1. build the property's theorem module(s) and audit the axioms of every property theorem;
 2. rebuild implementation (release binary) and in-process harness from /repo's working tree;
 3. correspondence: run model (Lean driver) and implementation on the same generated inputs;
 4. property oracle directly on the implementation (model-free) — the search for a failing input;
 5. verdict: VIOLATION lines (with a concrete replay, or `no-failing-input-found` naming the
    broken theorem / correspondence), KNOWN-FINDING lines, evidence/<id>.json.
"""
import argparse, json, os, random, sys, time
sys.path.insert(0, os.path.dirname(os.path.abspath(__file__)))
import fplib as L
import fpgen as G
import checks_unit, checks_scan, checks_link, checks_sys

REGISTRY = {}
for mod in (checks_unit, checks_scan, checks_link, checks_sys):
    REGISTRY.update(mod.CHECKS)


def main():
    ap = argparse.ArgumentParser()
    ap.add_argument('prop')
    ap.add_argument('--tier', default=os.environ.get('VERIF_TIER', 'quick'))
    ap.add_argument('--replay')
    ap.add_argument('--no-build', action='store_true')
    a = ap.parse_args()
    seed = int(os.environ.get('VERIF_SEED', '20260929'))
    pid = a.prop
    if pid not in REGISTRY:
        print(f'unknown property {pid}'); return 2
    spec = REGISTRY[pid]
    ck = L.Check(pid, a.tier, seed)
    R = random.Random(seed * 1000003 + int(pid[1:]))

    # ---- 1. theorems
    proof_ok = True
    modules = spec['modules']
    ck.checker_cmd = 'cd lean && lake build fpdriver ' + ' '.join(modules) + ' && lake env lean <#print axioms audit>'
    ck.obligations = list(spec['theorems'])
    failing = []
    skip_proof = os.environ.get('VERIF_SKIP_PROOF') == '1'   # seeded-change evaluation only (tools/seedeval.py)
    ok, log = (True, '') if skip_proof else L.build_lean(modules)
    if skip_proof:
        ck.notes.append('proof step skipped (VERIF_SKIP_PROOF=1): this run is not a verdict')
    elif not ok:
        proof_ok = False
        ck.notes.append('lake build failed: ' + log[-3000:])
        failing = failing_declarations(log)
    else:
        bad = L.grep_forbidden()
        if bad:
            proof_ok = False; ck.notes.append('forbidden constructs: ' + '; '.join(bad[:10]))
        aok, axioms, alog = L.audit_theorems(modules[0], spec['theorems'], modules[1:])
        ck.axioms = axioms
        ck.discharged = sum(1 for t, ax in axioms.items() if ax is not None and all(x in L.ALLOWED_AXIOMS for x in ax))
        if not aok:
            proof_ok = False; ck.notes.append('axiom audit failed: ' + alog[-2000:])
        if a.tier == 'thorough':
            # independent re-check of the compiled theorem modules by the toolchain's leanchecker (replays every declaration in the kernel)
            rc, out = L.sh(['lake', 'env', 'leanchecker'] + list(modules), cwd=L.LEAN, timeout=1800)
            ck.notes.append('leanchecker ' + ' '.join(modules) + ': rc=%d' % rc)
            if rc != 0:
                proof_ok = False; ck.notes.append('leanchecker rejected the compiled modules: ' + out[-1500:])
    # ---- 2. implementation
    if not a.no_build:
        bin_ok, har_ok, blog = L.build_impl()
    else:
        bin_ok, har_ok, blog = True, True, ''
    if not bin_ok:
        ck.notes.append('release build of /repo failed: ' + blog[-3000:])
        ck.violation('build', {'what': 'the repository does not build; nothing could be checked', 'log': blog[-3000:]}, has_input=False)
        return ck.finish()
    ctx = dict(R=R, tier=a.tier, seed=seed, harness_ok=har_ok, replay=a.replay)
    if not har_ok:
        ck.notes.append('in-process harness does not compile against the current API; falling back to CLI level: ' + blog[-2000:])
    # ---- 3+4. correspondence and oracle
    n_before = len(ck.violations)
    spec['run'](ck, ctx)
    found_input = any(h for _, h in ck.violations[n_before:])
    if not har_ok and spec.get('needs_harness') and not found_input:
        ck.violation('harness', {'what': 'unit-level correspondence cannot be run: harness does not compile against /repo',
                                 'correspondence': spec.get('corr', ''), 'log': blog[-2000:]}, has_input=False)
    # ---- 5. broken proof obligation without a failing input
    if not proof_ok and not found_input:
        ck.violation('proof', {'what': 'a proof obligation of this property no longer checks',
                               'failing_declarations': failing, 'theorem_module': modules, 'theorems': spec['theorems'], 'notes': ck.notes[-3:]}, has_input=False)
    return ck.finish(assumptions=spec.get('assumptions', []))


def failing_declarations(log):
    """which declarations the Lean build rejected: `error: <file>:<line>:..` mapped to the enclosing theorem / def, plus translation errors
       (a source that could not be translated leaves a generated file whose only theorem is `source_not_translatable`)"""
    import re
    out, seen = [], set()
    for m in re.finditer(r'error: (FastPasta/[\w/]+\.lean):(\d+):\d+: ([^\n]*)', log):
        f, line, msg = m.group(1), int(m.group(2)), m.group(3)
        path = os.path.join(L.LEAN, f)
        decl = '?'
        try:
            src = open(path).read().split('\n')
            for i in range(min(line, len(src)) - 1, -1, -1):
                mm = re.match(r'\s*(?:private\s+)?(theorem|lemma|def|example|instance)\s+([^\s:({]+)?', src[i])
                if mm:
                    decl = (mm.group(2) or mm.group(1)); break
            if 'source_not_translatable' in '\n'.join(src[:8]):
                msg = 'the Rust source could not be translated: ' + ' '.join(l for l in src[:4] if l.startswith('/-'))[:300]
        except OSError:
            pass
        if (f, decl) not in seen:
            seen.add((f, decl)); out.append({'file': 'lean/' + f, 'line': line, 'declaration': decl, 'message': msg[:200]})
    for m in re.finditer(r'(rs2lean|stats2lean|src2lean|alpide2lean): cannot translate: ([^\n]*)', log):
        out.append({'translator': m.group(1), 'message': m.group(2)[:300]})
    return out[:12]


if __name__ == '__main__':
    sys.exit(main())
