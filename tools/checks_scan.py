import re
"""Scanner-level properties: C03 (chain walk), C08 (filtered output), C14 (statistics), C18 (truncation)."""
import os, struct, sys, json, shutil, subprocess
import fplib as L
import fpgen as G
from checks_unit import corr, report_dis


# ----------------------------------------------------------------- independent oracles
def chain_walk(data):
    """independent chain walk: [(offset, hdr, payload)] for a well-framed byte string"""
    out, o = [], 0
    while o + 64 <= len(data):
        off_next = data[o + 8] | (data[o + 9] << 8)
        out.append((o, data[o:o + 64], data[o + 64:o + off_next]))
        o += off_next
    return out


def hdr_fields(h):
    return dict(ver=h[0], fee=h[2] | h[3] << 8, sysid=h[5], off=h[8] | h[9] << 8, size=h[10] | h[11] << 8, link=h[12], pkt=h[13],
                bc=(h[16] | h[17] << 8) & 0xFFF, orbit=int.from_bytes(h[20:24], 'little'), df=h[24],
                trig=int.from_bytes(h[32:36], 'little'), page=h[36] | h[37] << 8, stop=h[38], det=int.from_bytes(h[48:52], 'little'))


def matches(flt, h):
    if flt is None: return True
    k, v = flt
    f = hdr_fields(h)
    if k == 'link': return f['link'] == v
    if k == 'fee': return f['fee'] == v
    mask = 0b0111000000111111
    return (f['fee'] & mask) == (v & mask)


def flt_token(flt): return '-' if flt is None else f'{flt[0]}:{flt[1]}'


def flt_args(flt):
    if flt is None: return []
    k, v = flt
    if k == 'link': return ['-f', str(v)]
    if k == 'fee': return ['-F', str(v)]
    return ['-s', f'L{(v >> 12) & 7}_{v & 63}']


def make_streams(R, tier, framed_only=False):
    """(name, pkts) — well-framed streams with arbitrary headers plus conforming streams"""
    out = []
    counts = [0, 1, 2, 7, 99, 100, 101, 200, 257] if tier == 'quick' else [0, 1, 2, 3, 50, 99, 100, 101, 199, 200, 201, 300, 1000, 2500]
    for n in counts:
        pk = G.random_framed_stream(R, n, max_payload=R.choice([40, 300, 2000]), nlinks=R.randint(1, 6))
        if pk:
            pk[0].rdh.update(fee=(R.randint(0, 6) << 12) | R.randint(0, 47), link=R.randint(0, 11), ver=7, sysid=32)
        out.append((f'framed{n}', pk))
    # big payloads up to the limit
    pk = G.random_framed_stream(R, 6, max_payload=10000, nlinks=2)
    pk[0].rdh.update(fee=0x1003, link=1); pk[2].raw_payload = bytes(R.getrandbits(8) for _ in range(10000)); pk[3].raw_payload = b''
    out.append(('bigpayload', pk))
    # packets of one link with small payloads between packets of another link whose payloads are near the
    # 10 000-byte limit: under a filter the big ones are skipped (seek on a file, read-and-discard on a pipe)
    pk = G.random_framed_stream(R, 9, max_payload=60, nlinks=1)
    for i, p in enumerate(pk):
        if i % 2 == 0: p.rdh.update(link=3, fee=0x2003)
        else:
            p.rdh.update(link=4, fee=0x3004); p.raw_payload = bytes(R.getrandbits(8) for _ in range(R.choice([8192, 8193, 9000, 10000])))
    out.append(('bigskip', pk))
    # staves of one layer whose numbers differ by 32 (only the outer layers have that many): the 6-bit stave field
    pk = G.random_framed_stream(R, 24, max_payload=80, nlinks=1)
    fees = [(5 << 12) | 8, (5 << 12) | 40, (6 << 12) | 1, (6 << 12) | 33, (6 << 12) | 47, (6 << 12) | 15]
    for i, p in enumerate(pk): p.rdh.update(fee=fees[i % len(fees)], link=i % len(fees))
    out.append(('stave32', pk))
    if not framed_only:
        for i in range(3 if tier == 'quick' else 30):
            pk, meta = G.conforming_stream(R)
            out.append((f'conf{i}', pk))
    return out


def all_sizes_stream(seed):
    """well-framed input in which every payload size 0..10000 occurs once (link 5), each followed by an RDH-only packet (link 6)"""
    import random as _r
    rr = _r.Random(seed); blob = bytes(rr.getrandbits(8) for _ in range(4096)) * 3
    out = bytearray()
    sizes = list(range(0, 10001)); rr.shuffle(sizes)
    for i, n in enumerate(sizes):
        f = dict(G.RDH_DEFAULT); f.update(link=5, fee=0x1005, orbit=100 + i, page=0, stop=0, size=64 + n, off=64 + n, pkt=i & 0xFF)
        out += G.rdh_bytes(f); k = rr.randrange(0, 2000); out += blob[k:k + n]
        f = dict(G.RDH_DEFAULT); f.update(link=6, fee=0x2006, orbit=100 + i, page=0, stop=0, size=64, off=64, pkt=i & 0xFF)
        out += G.rdh_bytes(f)
    return bytes(out)


def pick_filters(R, pk):
    flts = [None]
    if pk:
        p = R.choice(pk); q = pk[0]
        flts += [('link', p.rdh['link'] & 0xFF), ('fee', p.rdh['fee'] & 0xFFFF), ('stave', p.rdh['fee'] & 0x703F),
                 ('link', q.rdh['link'] & 0xFF), ('link', 200), ('fee', 0x7FFF), ('stave', 0x602F)]
    else:
        flts += [('link', 0)]
    return flts


# =============================================================== C03
RDH_ROW_WIDTHS = [6, 7, 7, 6, 8, 6, 10, 5, 12, 11, 10, 9, 5]


def parse_view_rdh(stdout, start=11):
    """rows of `view rdh -d`: fixed-width columns (a full 32-bit trigger type fills its column);
    the styled view has one space less after the offset (start=10)"""
    rows = []
    for l in stdout.decode('utf-8', 'replace').split('\n'):
        if len(l) > 12 and l[8:9] == ':' and l[:8].strip() and all(c in '0123456789ABCDEF' for c in l[:8].strip()):
            pos, toks = start, []
            for w in RDH_ROW_WIDTHS:
                toks.append(l[pos:pos + w].strip()); pos += w
            toks.append(l[pos:].strip())
            if toks[0].isdigit():
                rows.append((int(l[:8].strip(), 16), toks))
    return rows


def run_c03(ck, ctx):
    R, tier = ctx['R'], ctx['tier']
    streams = make_streams(R, tier)
    reqs, meta = [], []
    for name, pk in streams:
        data = G.encode(pk)
        for flt in pick_filters(R, pk):
            for skip in (0, 1):
                reqs.append(f'scan filter={flt_token(flt)} skip={skip} data={G.hexs(data)}'); meta.append((name, flt, skip, data))
    bad_idx = set()
    if ctx['harness_ok']:
        impl, model, dis = corr(ck, 'scan', reqs)
        for i, a in enumerate(impl):
            name, flt, skip, data = meta[i]
            ck.case((name, flt, skip))
            exp = [(o, h, b'' if skip else p) for o, h, p in chain_walk(data) if matches(flt, h)]
            ck.count('packets_expected', len(exp)); ck.count('filter_' + (flt[0] if flt else 'none'))
            toks = a.split(' | ')[0].split(' ')
            got = [t for t in toks[1:] if t]
            ok = toks[0] == f'n={len(exp)}' and len(got) == len(exp)
            if ok:
                for g, (o, h, p) in zip(got, exp):
                    go, gh, gl, g4 = g.split(':')
                    if int(go) != o or gh != h.hex().upper() or int(gl) != len(p) or int(g4) != int.from_bytes(p[:4], 'little'):
                        ok = False; break
            if not ok:
                bad_idx.add(i)
                ck.violation('scan', {'what': 'the scanner does not deliver exactly the chained packets (offset / header / payload)',
                                      'stream': name, 'filter': flt, 'skip_payload': skip, 'input_hex': data.hex()[:200000],
                                      'expected_n': len(exp), 'implementation': a[:600]})
        ck.sample(dict(request=reqs[8][:160] + '...', impl=impl[8][:200], model=model[8][:200]))
        report_dis(ck, 'scan', dis, bad_idx)
    # CLI level: view rdh -d from file and from pipe, all filters
    jobs = []
    for name, pk in streams:
        if not pk: continue
        data = G.encode(pk)
        for flt in pick_filters(R, pk)[:5]:
            for via in ('file', 'pipe'):
                jobs.append((name, flt, via, data))

    def job(j):
        name, flt, via, data = j
        r = L.run_cli(['view', 'rdh', '-d'] + flt_args(flt), data, via=via, stats=False)
        return r
    res = L.pmap(job, jobs)
    for (name, flt, via, data), r in zip(jobs, res):
        ck.case(('cli', name, flt, via))
        exp = [(o, hdr_fields(h)) for o, h, p in chain_walk(data) if matches(flt, h)]
        rows = parse_view_rdh(r.stdout)
        ok = r.exit == 0 and len(rows) == len(exp)
        if ok:
            for (o, toks), (eo, f) in zip(rows, exp):
                if o != eo or int(toks[0]) != f['ver'] or int(toks[2]) != f['fee'] or int(toks[4]) != f['off'] or int(toks[5]) != f['link'] \
                   or int(toks[7]) != f['bc'] or int(toks[8], 16) != f['orbit'] or int(toks[9]) != f['df'] or int(toks[10], 16) != f['trig'] \
                   or int(toks[11]) != f['page'] or int(toks[12]) != f['stop'] or int(toks[13], 16) != f['det']:
                    ok = False; break
        ck.count('cli_' + via)
        if not ok:
            ck.violation('view_rdh', {'what': '`view rdh` does not show exactly the chained RDHs with their true offsets and fields',
                                      'stream': name, 'filter': flt, 'via': via, 'input_hex': data.hex()[:200000], 'exit': r.exit,
                                      'rows': len(rows), 'expected_rows': len(exp), 'first_rows': rows[:3], 'args': ['view', 'rdh', '-d'] + flt_args(flt)},
                         key=None)
    # a long input: more packets than the queues between the threads can hold (100 batches of 100), with a
    # consumer (the view) slower than the reader; every RDH must still be visited, from file, pipe and a bursty pipe
    npk = 25000 if tier == 'quick' else 120000
    hb = bytearray()
    for i in range(npk):
        f = dict(G.RDH_DEFAULT); f.update(link=i % 3, fee=0x2000 | (i % 3), orbit=7 + i // 6, page=(i // 3) % 2, stop=(i // 3) % 2, size=64, off=64, pkt=i & 0xFF)
        hb += G.rdh_bytes(f)
    hb = bytes(hb)
    for via in ('file', 'pipe', 'pipe_bursty'):
        r = L.run_cli(['view', 'rdh', '-d'], hb, via=via, stats=False, timeout=300)
        rows = parse_view_rdh(r.stdout)
        ck.case(('cli_long', via)); ck.count('cli_long_' + via)
        offs_ok = len(rows) == npk and all(rows[k][0] == 64 * k for k in (0, 1, 9999, 10000, 10099, 10100, 10101, npk - 1))
        if r.exit != 0 or not offs_ok:
            ck.violation('view_rdh', {'what': 'long input: `view rdh` does not visit every RDH of the chain', 'packets': npk, 'rows': len(rows), 'via': via, 'exit': r.exit,
                                      'replay': f'{npk} RDH-only packets (offset_to_next = memory_size = 64), 3 links; fastpasta view rdh -d'})
    # EVERY payload size the scanner accepts (0..10000 bytes), each once, on link 5, alternating with RDH-only packets of link 6:
    # plain walk (payloads skipped by `view rdh`), and under a filter that skips link 5 (seek on a file, read-and-discard on a pipe)
    data = all_sizes_stream(ctx['seed'])
    walk = chain_walk(data)
    for via in ('file', 'pipe'):
        for flt in (None, ('link', 6), ('link', 5)):
            r = L.run_cli(['view', 'rdh', '-d'] + flt_args(flt), data, via=via, stats=False, timeout=300)
            rows = parse_view_rdh(r.stdout)
            exp = [o for o, h, p in walk if matches(flt, h)]
            ck.case(('all_sizes', via, flt)); ck.count('all_sizes_' + via)
            if r.exit != 0 or [o for o, _ in rows] != exp:
                firstbad = next((k for k, (a, b) in enumerate(zip([o for o, _ in rows], exp)) if a != b), min(len(rows), len(exp)))
                ck.violation('view_rdh', {'what': 'payload-size sweep: `view rdh` does not visit exactly the chained RDHs', 'via': via, 'filter': flt, 'exit': r.exit,
                                          'rows': len(rows), 'expected_rows': len(exp), 'first_difference_at_row': firstbad,
                                          'payload_size_before_first_difference': None if firstbad == 0 or firstbad > len(exp) else len(walk[[o for o, _, _ in walk].index(exp[firstbad - 1])][2]) if firstbad - 1 < len(exp) else None,
                                          'stderr': r.stderr[-300:],
                                          'replay': 'tools/checks_scan.py all_sizes_stream(seed): packets of link 5 with payload sizes 0..10000 (each once), each followed by an RDH-only packet of link 6'})
    r = L.run_cli(['check', 'sanity'], hb, via='pipe_bursty', timeout=300)
    ck.case(('cli_long', 'check_sanity'))
    if r.stats is None or r.stats['rdh_stats']['rdhs_seen'] != npk:
        ck.violation('view_rdh', {'what': 'long input from a producer that pauses: `check sanity` does not visit every RDH', 'packets': npk,
                                  'rdhs_seen': None if r.stats is None else r.stats['rdh_stats']['rdhs_seen'], 'exit': r.exit})


# =============================================================== C08
def run_c08(ck, ctx):
    R, tier = ctx['R'], ctx['tier']
    streams = [s for s in make_streams(R, tier) if s[1]]
    jobs = []
    for name, pk in streams:
        data = G.encode(pk)
        for flt in pick_filters(R, pk)[1:]:
            for dest in ('file', 'stdout'):
                for via in ('file', 'pipe'):
                    if tier == 'quick' and dest == 'stdout' and via == 'pipe' and len(pk) > 120: continue
                    jobs.append((name, flt, dest, via, data))

    # a producer that pauses in mid-stream (two bursts): the output must still be complete
    for name, pk in streams:
        if name in ('framed200', 'framed257', 'conf0'):
            data = G.encode(pk)
            flt = pick_filters(R, pk)[1]
            jobs.append((name, flt, 'file', 'pipe_bursty', data)); jobs.append((name, flt, 'stdout', 'pipe_bursty', data))

    def job(j):
        name, flt, dest, via, data = j
        wd = os.path.join(L.CACHE, 'tmp', f'c08_{os.getpid()}_{id(j)}')
        os.makedirs(wd, exist_ok=True)
        if dest == 'file':
            outp = os.path.join(wd, 'out.raw')
            open(outp, 'wb').write(b'stale content of an earlier run' * 3)      # an existing file must be replaced, not extended
            r = L.run_cli(flt_args(flt) + ['-o', outp], data, via=via, stats=False, workdir=wd)
            out = open(outp, 'rb').read() if os.path.exists(outp) else None
        else:
            r = L.run_cli(flt_args(flt), data, via=via, stats=False, workdir=wd)
            out = r.stdout
        import shutil; shutil.rmtree(wd, ignore_errors=True)
        return r.exit, out
    res = L.pmap(job, jobs)
    reqs, rmeta = [], []
    for (name, flt, dest, via, data), (exit, out) in zip(jobs, res):
        ck.case((name, flt, dest, via))
        exp = b''.join(h + p for o, h, p in chain_walk(data) if matches(flt, h))
        ck.count('dest_' + dest); ck.count('out_empty' if not exp else 'out_nonempty')
        if exit != 0 or out != exp:
            ck.violation('writer', {'what': 'filtered output is not the concatenation of exactly the matching packets',
                                    'stream': name, 'filter': flt, 'dest': dest, 'via': via, 'input_hex': data.hex()[:200000], 'exit': exit,
                                    'out_len': None if out is None else len(out), 'expected_len': len(exp)})
        if dest == 'file' and via == 'file':
            reqs.append(f'run cmd=none filter={flt_token(flt)} data={G.hexs(data)}'); rmeta.append(exp)
    # every payload size 0..10000 through the writer (also RDH-only packets), file and pipe, to a file
    data = all_sizes_stream(ctx['seed']); walk = chain_walk(data)
    for via in ('file', 'pipe'):
        for l in (5, 6):
            wd = os.path.join(L.CACHE, 'tmp', f'c08_all_{os.getpid()}_{via}_{l}'); os.makedirs(wd, exist_ok=True)
            outp = os.path.join(wd, 'out.raw')
            r = L.run_cli(['-f', str(l), '-o', outp], data, via=via, stats=False, workdir=wd, timeout=300)
            out = open(outp, 'rb').read() if os.path.exists(outp) else None
            import shutil; shutil.rmtree(wd, ignore_errors=True)
            exp = b''.join(h + p for o, h, p in walk if h[12] == l)
            ck.case(('all_sizes', via, l)); ck.count('all_sizes_' + via)
            if r.exit != 0 or out != exp:
                ck.violation('writer', {'what': 'payload-size sweep: filtered output is not the concatenation of exactly the matching packets', 'via': via, 'link': l,
                                        'exit': r.exit, 'out_len': None if out is None else len(out), 'expected_len': len(exp), 'stderr': r.stderr[-300:],
                                        'replay': 'tools/checks_scan.py all_sizes_stream(seed); fastpasta -f %d -o out.raw' % l})
    # model correspondence on the output bytes
    model = L.run_driver(reqs)
    dis = []
    for q, m, exp in zip(reqs, model, rmeta):
        s = 7
        for b in exp: s = (s * 31 + b) % 4294967291
        if f'outlen={len(exp)} outsum={s}' not in m and 'INITERR' not in m:
            dis.append((0, q[:200], f'outlen={len(exp)} outsum={s}', m[-80:]))
    ck.corr['writer_model'] = dict(cases=len(reqs), disagreements=len(dis))
    report_dis(ck, 'writer_model', dis)
    # partition over all link values, idempotence, output well-framed
    for name, pk in streams[:6 if tier == 'quick' else None]:
        data = G.encode(pk)
        links = sorted({p.rdh['link'] & 0xFF for p in pk})
        outs = {}
        for l in links:
            r = L.run_cli(['-f', str(l)], data, stats=False)
            outs[l] = r.stdout
        ck.case(('partition', name))
        walk = chain_walk(data)
        merged = b''.join(h + p for o, h, p in walk)
        total = sum(len(v) for v in outs.values())
        # merge by original position
        cur = {l: 0 for l in links}; rebuilt = b''
        for o, h, p in walk:
            l = h[12]; n = len(h) + len(p)
            rebuilt += outs[l][cur[l]:cur[l] + n]; cur[l] += n
        if total != len(merged) or rebuilt != data[:len(merged)]:
            ck.violation('partition', {'what': 'outputs over all link filters do not partition the input', 'stream': name, 'input_hex': data.hex()[:200000]})
        for l in links[:2]:
            r2 = L.run_cli(['-f', str(l)], outs[l], stats=False)
            if r2.stdout != outs[l]:
                gate = 'Initial RDH0 deserialization failed sanity check' in r2.stderr
                ck.violation('idempotent', {'what': 'filtering an output again with the same filter does not reproduce it', 'stream': name, 'link': l,
                                            'input_hex': data.hex()[:200000], 'stderr': r2.stderr[-300:]},
                             key='first-rdh0-gate' if gate else None)
            if chain_walk(outs[l]) and sum(64 + len(p) for o, h, p in chain_walk(outs[l])) != len(outs[l]):
                ck.violation('framing', {'what': 'filtered output is not well-framed', 'stream': name, 'link': l, 'input_hex': data.hex()[:200000]})


# =============================================================== C14
TRIG_BITS = [0, 1, 2, 3, 4, 5, 6, 7, 8, 9, 10, 11, 12, 13, 14, 27, 28, 29, 30, 31]
TRIG_NAMES = ['orbit', 'hb', 'hbr', 'hc', 'pht', 'pp', 'cal', 'sot', 'eot', 'soc', 'eoc', 'tf', 'fe_rst', 'rt', 'rs', 'lhc_gap1', 'lhc_gap2', 'tpc_sync', 'tpc_rst', 'tof']
SYS_NAMES = {3: 'TPC', 4: 'TRD', 5: 'TOF', 6: 'HMP', 7: 'PHS', 8: 'CPV', 10: 'MCH', 15: 'ZDC', 17: 'TRG', 18: 'EMC', 19: 'TST', 32: 'ITS', 33: 'FDD', 34: 'FT0',
             35: 'FV0', 36: 'MFT', 37: 'MID', 38: 'DCS', 39: 'FOC', 255: 'Unloaded'}


def ground_truth(data, flt, analysed):
    walk = chain_walk(data)
    matched = [(o, h, p) for o, h, p in walk if matches(flt, h)]
    gt = dict(rdhs_seen=len(walk), rdhs_filtered=len(matched) if flt else 0,
              payload_size=sum((hdr_fields(h)['size'] - 64) & 0xFFFF for o, h, p in matched),
              links=sorted(dict.fromkeys(h[12] for o, h, p in walk)), fee_id=list(dict.fromkeys(hdr_fields(h)['fee'] for o, h, p in walk)))
    if walk:
        f0 = hdr_fields(walk[0][1])
        gt.update(rdh_version=f0['ver'], data_format=f0['df'], run_trigger=f0['trig'], system_id=SYS_NAMES.get(f0['sysid']))
    if analysed:
        gt['hbfs_seen'] = sum(1 for o, h, p in matched if h[38] == 1)
        gt['trig'] = {n: sum((hdr_fields(h)['trig'] >> b) & 1 for o, h, p in matched) for n, b in zip(TRIG_NAMES, TRIG_BITS)}
        gt['layer_staves'] = list(dict.fromkeys(((hdr_fields(h)['fee'] >> 12) & 7, hdr_fields(h)['fee'] & 63) for o, h, p in matched)) if (matched and matched[0][1][5] == 32) else []
    return gt


def stats_view(st):
    r = st['rdh_stats']
    return dict(rdhs_seen=r['rdhs_seen'], rdhs_filtered=r['rdhs_filtered'], payload_size=r['payload_size'], links=r['links'], fee_id=r['fee_id'],
                rdh_version=r['rdh_version'], data_format=r['data_format'], run_trigger=(r['run_trigger_type'] or [None])[0],
                system_id=r['system_id'], hbfs_seen=r['hbfs_seen'], trig={n: r['trigger_stats'][n] for n in TRIG_NAMES},
                layer_staves=[tuple(x) for x in r['its_stats']['layer_staves_seen']])


def run_c14(ck, ctx):
    R, tier = ctx['R'], ctx['tier']
    streams = [s for s in make_streams(R, tier) if s[1]]
    modes = [(['check', 'sanity'], 'cmd=sanity', True), (['check', 'all', 'its'], 'cmd=all target=its', True), (['view', 'rdh', '-d'], 'cmd=viewrdh', True),
             ([], 'cmd=none', False)]
    jobs = []
    for name, pk in streams:
        data = G.encode(pk)
        flts = pick_filters(R, pk)
        for args, mtok, analysed in modes:
            for flt in (flts[:4] if tier == 'quick' else flts):
                if not args and flt is None: continue
                jobs.append((name, args, mtok, analysed, flt, data))

    def job(j):
        name, args, mtok, analysed, flt, data = j
        extra = ['-o', os.devnull] if not args else []
        return L.run_cli(args + flt_args(flt) + extra, data, stats=True)
    res = L.pmap(job, jobs)
    reqs = []
    for (name, args, mtok, analysed, flt, data), r in zip(jobs, res):
        ck.case((name, tuple(args), flt))
        reqs.append(f'run {mtok} filter={flt_token(flt)} data={G.hexs(data)}')
        if r.stats is None:
            ck.violation('nostats', {'what': 'no statistics file written', 'args': args, 'filter': flt, 'input_hex': data.hex()[:200000], 'exit': r.exit, 'stderr': r.stderr[-400:]}); continue
        gt = ground_truth(data, flt, analysed)
        sv = stats_view(r.stats)
        view_mode = args[:1] == ['view']
        bad = {k: (sv.get(k), v) for k, v in gt.items() if sv.get(k) != v}
        # total errors / distinct codes against the error list itself
        es = r.stats['error_stats']
        if es['total_errors'] != len(es['reported_errors']) + len(es['custom_checks_stats_errors']):
            bad['total_errors'] = (es['total_errors'], len(es['reported_errors']))
        if True:      # every mode that writes a statistics file: distinct codes = codes of the reported messages, first occurrence
            codes = []
            for m in es['reported_errors']:
                import re
                for c in re.findall(r'\[E([0-9]{2,4})\]', m):
                    if c not in codes: codes.append(c)
            if es['unique_error_codes'] != codes: bad['unique_error_codes'] = (es['unique_error_codes'], codes)
        ck.count('mode_' + (args[1] if len(args) > 1 else 'write'))
        if bad:
            ck.violation('stats', {'what': 'statistics differ from ground truth computed from the input', 'stream': name, 'args': args, 'filter': flt,
                                   'differences(impl,truth)': {k: str(v)[:300] for k, v in bad.items()}, 'input_hex': data.hex()[:200000]})
    # distinct error codes when messages carry nested codes (stave-level lane errors quote [E9003..5]) and custom
    # check messages: every code of every message, in first-occurrence order
    import re as _re
    wd = os.path.join(L.CACHE, 'tmp', f'c14_{os.getpid()}'); os.makedirs(wd, exist_ok=True)
    for si in range(2 if tier == 'quick' else 12):
        pk, meta = G.conforming_stream(R, nlinks=R.randint(1, 3), layers=[3, 4, 5, 6], max_hbf=2)
        data = G.encode(pk)
        toml = os.path.join(wd, 'c.toml'); open(toml, 'w').write('chip_count_ob = 6\ncdps = 1\ntriggers_pht = 100000\n')
        r = L.run_cli(['check', 'all', 'its-stave', '-c', toml], data)
        ck.case(('nested_codes', si))
        if r.stats is None: continue
        es = r.stats['error_stats']
        codes = []
        for m in es['reported_errors'] + es['custom_checks_stats_errors']:
            for c in _re.findall(r'\[E([0-9]{2,4})\]', m):
                if c not in codes: codes.append(c)
        ck.count('nested_code_runs'); ck.count('nested_codes_seen', len([c for c in codes if len(c) == 4]))
        if es['unique_error_codes'] != codes or es['total_errors'] != len(es['reported_errors']) + len(es['custom_checks_stats_errors']):
            ck.violation('stats', {'what': 'distinct error codes / total differ from what the reported messages contain (nested lane codes, custom checks)',
                                   'unique_error_codes': es['unique_error_codes'], 'codes_in_messages': codes, 'total_errors': es['total_errors'],
                                   'args': 'check all its-stave -c <chip_count_ob = 6, cdps = 1, triggers_pht = 100000>', 'input_hex': data.hex()[:200000]})
    shutil.rmtree(wd, ignore_errors=True)
    # model correspondence
    model = L.run_driver(reqs)
    dis = []
    for q, m, (name, args, mtok, analysed, flt, data), r in zip(reqs, model, jobs, res):
        if r.stats is None or 'INITERR' in m: continue
        sv = stats_view(r.stats)
        kv = dict(t.split('=', 1) for t in m.split(' | ')[0].split(' ') if '=' in t)
        links = sv['links']
        mine = dict(seen=str(sv['rdhs_seen']), filtered=str(sv['rdhs_filtered']), payload=str(sv['payload_size']), hbfs=str(sv['hbfs_seen']),
                    links=','.join(map(str, links)), fees=','.join(map(str, sv['fee_id'])),
                    trig=','.join(str(sv['trig'][n]) for n in TRIG_NAMES), total=str(r.stats['error_stats']['total_errors']),
                    staves=','.join(f'{a}/{b}' for a, b in sv['layer_staves']))
        d = {k: (v, kv.get(k)) for k, v in mine.items() if kv.get(k) != v}
        if d: dis.append((0, q[:160], str(d)[:300], ''))
    ck.corr['stats_model'] = dict(cases=len(reqs), disagreements=len(dis))
    ck.sample(dict(request=reqs[0][:120] + '...', model=model[0][:300]))
    report_dis(ck, 'stats_model', dis)
    # more than 4 GiB of payload: the counters must not wrap (fixed 9399d7f: the reader's u32 payload sum stepped over u32::MAX).
    # The input is a SPARSE file - 430 000 headers announcing 10 000 payload bytes each, the payloads are holes - and the command skips
    # payloads by seeking, so only the headers are ever read (about 1.7 GB on disk for a few seconds, removed afterwards).
    wd2 = os.path.join(L.CACHE, 'tmp', f'c14big_{os.getpid()}'); os.makedirs(wd2, exist_ok=True)
    big = os.path.join(wd2, 'over4g.raw'); npk, psz = 430000, 10000
    try:
        with open(big, 'wb') as fh:
            for i in range(npk):
                fh.write(G.rdh_bytes(dict(G.RDH_DEFAULT, link=i % 2, fee=0x1000 | (i % 2), orbit=10 + i // 2, page=0, stop=0, size=64 + psz, off=64 + psz, pkt=i & 0xFF)))
                fh.seek(psz, 1)
            fh.truncate(npk * (64 + psz))
        for args in (['check', 'sanity', '-m'], ['view', 'rdh']):
            sp = os.path.join(wd2, 'st.json')
            if os.path.exists(sp): os.remove(sp)
            r = subprocess.run([L.BIN, big] + args + ['-S', sp, '-D', 'json'], stdout=subprocess.DEVNULL, stderr=subprocess.PIPE, timeout=900)
            ck.case(('over_4gib', tuple(args))); ck.count('over_4gib_runs')
            st = json.load(open(sp))['rdh_stats'] if os.path.exists(sp) else None
            if st is None or st['rdhs_seen'] != npk or st['payload_size'] != npk * psz:
                ck.violation('stats', {'what': 'statistics of an input with more than 4 GiB of payload differ from the ground truth',
                                       'args': args, 'expected': {'rdhs_seen': npk, 'payload_size': npk * psz},
                                       'got': None if st is None else {'rdhs_seen': st['rdhs_seen'], 'payload_size': st['payload_size']},
                                       'input': '%d packets, each: RDH announcing %d payload bytes (zeros); links 0 and 1 alternating' % (npk, psz),
                                       'exit': r.returncode}, key=None)
    finally:
        shutil.rmtree(wd2, ignore_errors=True)


# =============================================================== C18
def run_c18(ck, ctx):
    R, tier = ctx['R'], ctx['tier']
    cases = []
    for i in range(3 if tier == 'quick' else 20):
        pk, meta = G.conforming_stream(R, nlinks=R.randint(1, 3), max_hbf=2, hits=False)
        if i % 2 == 1:   # corrupted variant
            # not in the very first header: an RDH0 fault there is refused at start-up for the full and for every
            # truncated input alike (global start-up gate, recorded under C02/C06/C08) and says nothing about truncation
            k = R.randrange(1, len(pk)) if len(pk) > 1 else 0
            if k: pk[k].rdh['res0'] = 1
            k = R.randrange(len(pk))
            if pk[k].words: pk[k].words[0] = bytes(9) + b'\x13'
        cases.append(pk[:12] if tier == 'quick' else pk[:40])
    # the fourth mode writes the packets of the first packet's link to stdout (`-f <link>`): filter mode has its own wiring (no analysis thread)
    modes = [(['check', 'all', 'its'], 'cmd=all target=its'), (['check', 'sanity'], 'cmd=sanity'), (['view', 'rdh', '-d'], 'cmd=viewrdh'), (['-f', 'LINK'], 'cmd=filter')]
    jobs = []
    for ci, pk in enumerate(cases):
        data = G.encode(pk); offs = G.offsets(pk) + [len(data)]
        cuts = set(range(0, min(len(data), 200))) | set(offs) | {o - 1 for o in offs if o} | {o + 1 for o in offs} | {o + 63 for o in offs} | {o + 64 for o in offs} | {o + 65 for o in offs}
        step = 1 if tier == 'thorough' else max(1, len(data) // 150)
        cuts |= set(range(0, len(data) + 1, step))
        for c in sorted(x for x in cuts if 0 <= x <= len(data)):
            for mi, (args, mtok) in enumerate(modes):
                if mi > 0 and c % 3: continue
                for via in ('file', 'pipe'):
                    if via == 'pipe' and c % 2: continue
                    jobs.append((ci, c, args, mtok, via))
    full = {}
    def real_args(ci, args):
        return [str(cases[ci][0].rdh['link']) if a == 'LINK' else a for a in args]
    for ci, pk in enumerate(cases):
        data = G.encode(pk)
        for args, mtok in modes:
            full[(ci, tuple(args))] = L.run_cli(real_args(ci, args) + ['-E', '9'], data, stats=mtok != 'cmd=filter')

    def job(j):
        ci, c, args, mtok, via = j
        data = G.encode(cases[ci])[:c]
        return L.run_cli(real_args(ci, args) + ['-E', '9'], data, via=via, timeout=60, stats=mtok != 'cmd=filter')
    res = L.pmap(job, jobs)
    reqs, rj = [], []
    for (ci, c, args, mtok, via), r in zip(jobs, res):
        pk = cases[ci]; offs = G.offsets(pk) + [len(G.encode(pk))]
        ck.case((ci, c, tuple(args), via))
        ck.count('via_' + via); ck.count('cut_in_' + ('rdh' if any(o <= c < o + 64 for o in offs[:-1]) else 'payload_or_boundary'))
        inp = G.encode(pk)[:c]
        if r.timeout or r.exit not in (0, 1, 9):
            ck.violation('crash', {'what': 'truncated input: abnormal termination', 'cut': c, 'args': args, 'via': via, 'exit': r.exit,
                                   'stderr': r.stderr[-600:], 'input_hex': inp.hex()})
            continue
        # complete packets before the cut
        ncomplete = max(i for i in range(len(offs)) if offs[i] <= c)
        limit = offs[ncomplete]
        if c < 64: continue   # nothing can be analysed; only normal termination is required
        if mtok == 'cmd=filter':
            l0 = pk[0].rdh['link']
            exp = b''.join(q.encode() for q, o in zip(pk, offs) if q.rdh['link'] == l0 and o + q.size() <= c)
            if 'Init processing failed' in full[(ci, tuple(args))].stderr: exp = b''
            ck.count('filter_mode_cuts')
            if not r.stdout.startswith(exp) or len(r.stdout) > len(exp) + 64:
                ck.violation('prefix', {'what': 'filtered output of the truncated input does not start with exactly the complete matching packets before the cut',
                                        'cut': c, 'via': via, 'link': l0, 'out_len': len(r.stdout), 'expected_prefix_len': len(exp), 'input_hex': inp.hex()})
            continue
        fr = full[(ci, tuple(args))]
        want = sorted(e for e in fr.errors if e[0] is not None and e[0] < limit)
        got = sorted(e for e in r.errors if e[0] is not None and e[0] < limit)
        extra = [e for e in r.errors if e[0] is None or e[0] >= limit]
        if got != want:
            ck.violation('prefix', {'what': 'findings for complete packets before the cut differ from the untruncated run', 'cut': c, 'args': args, 'via': via,
                                    'missing': [e for e in want if e not in got][:5], 'added': [e for e in got if e not in want][:5], 'input_hex': inp.hex()})
        # the intact prefix is *analysed*, not just free of spurious findings: every RDH that is completely present
        # is counted / shown, the rows of the complete packets are those of the untruncated run
        nrdh = sum(1 for o in offs[:-1] if o + 64 <= c)
        if fr.exit == 1 and 'Init processing failed' in fr.stderr:
            nrdh = 0; ncomplete = 0      # the untruncated input itself is refused at start-up: nothing is analysed in either run
        if mtok == 'cmd=viewrdh':
            rows_t = [l for l in r.stdout.decode('utf-8', 'replace').split('\n') if re.match(r'^\s*[0-9A-Fa-f]+:', l)]
            rows_f = [l for l in fr.stdout.decode('utf-8', 'replace').split('\n') if re.match(r'^\s*[0-9A-Fa-f]+:', l)]
            if len(rows_t) != nrdh or rows_t[:ncomplete] != rows_f[:ncomplete]:
                ck.violation('prefix', {'what': 'view rdh of the truncated input does not show exactly the RDHs that are completely present, identical to the untruncated run for complete packets',
                                        'cut': c, 'via': via, 'rows': len(rows_t), 'rdhs_completely_present': nrdh, 'complete_packets': ncomplete, 'input_hex': inp.hex()})
        elif r.stats is not None:
            seen = r.stats['rdh_stats']['rdhs_seen']
            if seen != nrdh:
                ck.violation('prefix', {'what': 'the truncated run did not analyse exactly the RDHs that are completely present', 'cut': c, 'args': args, 'via': via,
                                        'rdhs_seen': seen, 'rdhs_completely_present': nrdh, 'input_hex': inp.hex()})
        if mtok != 'cmd=viewrdh' and via == 'file':
            reqs.append(f'run {mtok} E=9 data={G.hexs(inp)}'); rj.append(r)
    model = L.run_driver(reqs)
    dis = []
    for q, m, r in zip(reqs, model, rj):
        if 'INITERR' in m:
            if r.exit != 1: dis.append((0, q[:200], f'exit={r.exit}', m[:80]))
            continue
        kv = dict(t.split('=', 1) for t in m.split(' errors=')[0].split(' ') if '=' in t)
        merrs = sorted(tuple(t.split(':')[:2]) for t in m.split(' errors=')[1].split(' | ')[0].split(' ') if t)
        ierrs = sorted((str(e[0]), e[1]) for e in r.errors)
        if kv.get('exit') != str(r.exit) or merrs != ierrs:
            dis.append((0, q[:200], f'exit={r.exit} errors={ierrs[:6]}', f'exit={kv.get("exit")} errors={merrs[:6]}'))
    ck.corr['truncation_model'] = dict(cases=len(reqs), disagreements=len(dis))
    report_dis(ck, 'truncation_model', dis)
    ck.sample(dict(case='cut positions of a conforming stream', jobs=len(jobs)))


CHECKS = {
    'C03': dict(modules=['FastPasta.Props.C03'], needs_harness=True, corr='scan', run=run_c03,
                theorems=['FastPasta.C03.scan_exact', 'FastPasta.C03.scan_src_irrelevant', 'FastPasta.C03.encode_decode', 'FastPasta.C03.filterLoop_spec',
                          'FastPasta.C03.loadRdh_spec', 'FastPasta.C03.loadCdp_spec', 'FastPasta.C03.scanLoop_spec', 'FastPasta.C03.expected_unfold',
                          'FastPasta.C03.scan_complete_prefix', 'FastPasta.C03.filter_src', 'FastPasta.C03.tracker_src']),
    'C08': dict(modules=['FastPasta.Props.C08'], needs_harness=False, corr='writer_model', run=run_c08,
                theorems=['FastPasta.C08.writer_exact', 'FastPasta.C08.writer_src_irrelevant', 'FastPasta.C08.output_well_framed', 'FastPasta.C08.idempotent',
                          'FastPasta.C08.partition_membership', 'FastPasta.C08.partition_count', 'FastPasta.C03.encode_decode', 'FastPasta.C03.scan_exact']),
    'C14': dict(modules=['FastPasta.Props.C14'], needs_harness=False, corr='stats_model', run=run_c14,
                theorems=['FastPasta.C14.run_hbfs_trig', 'FastPasta.C14.analysis_hbfs', 'FastPasta.C14.analysis_trig', 'FastPasta.C14.scanner_msgs_no_hbf_trig',
                          'FastPasta.C14.validator_msgs_no_hbf_trig', 'FastPasta.run_seen', 'FastPasta.run_filtered', 'FastPasta.run_payload', 'FastPasta.run_hbfs',
                          'FastPasta.run_trig', 'FastPasta.C14.run_scanner_stats', 'FastPasta.C14.run_form', 'FastPasta.C03.scanLoop_counts',
                          'FastPasta.C03.loadCdp_counts', 'FastPasta.C03.scanLoop_plain', 'FastPasta.C03.scanLoop_announced',
                          'FastPasta.C14.run_links', 'FastPasta.C14.run_fees',
                          'FastPasta.C14.run_set_once', 'FastPasta.C14.run_error_total', 'FastPasta.C14.run_errors_nofatal', 'FastPasta.C03.scanAll_setOnce',
                          'FastPasta.C03.scanLoop_setOnce_later', 'FastPasta.C03.loadCdp_setOnce', 'FastPasta.C14.run_field',
                          # tie by translation (Spec/TrigSrcGen.lean): per-bit trigger counters = TriggerStats::collect_stats
                          'FastPasta.C14.trigger_counters_src', 'FastPasta.C14.reader_counters_src']),
    'C18': dict(modules=['FastPasta.Props.C18'], needs_harness=False, corr='truncation_model', run=run_c18,
                theorems=['FastPasta.C18.truncated_findings_are_prefix', 'FastPasta.linkRun_append', 'FastPasta.C18.link_findings_prefix',
                          'FastPasta.C18.runValidators_append', 'FastPasta.C18.dispStep_msgs_grow', 'FastPasta.C18.validator_msgs_grow',
                          'FastPasta.C03.scan_complete_prefix', 'FastPasta.C18.scan_truncated_in_payload',
                          'FastPasta.C18.truncated_in_payload_findings_are_prefix', 'FastPasta.C03.scanLoop_tail', 'FastPasta.C03.loadCdp_nomatch',
                          'FastPasta.C03.filterLoop_reach']),
}
