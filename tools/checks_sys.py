"""System-level properties: C04 (no crash), C05 (schedule independence), C15 (stats round trip),
C16 (exit contract / accounting), C17 (orderly early stop), C19 (views)."""
import select, threading
import os, re, json, shutil, signal, subprocess, time, random
import fplib as L
import fpgen as G
from checks_unit import report_dis
from checks_scan import chain_walk, hdr_fields, flt_args, flt_token, parse_view_rdh
from checks_link import model_run, mode_args, mode_tok, MODES, faults, impl_errs


def erroneous_stream(R, nlinks=3, nfaults=6, max_hbf=3, exclude=()):
    F = faults(R)
    names = [k for k in F if k not in ('rdh_version',) + tuple(exclude)]
    base, meta = G.conforming_stream(R, nlinks=nlinks, max_hbf=max_hbf)
    pk = [p.clone() for p in base]
    for _ in range(nfaults):
        F[R.choice(names)](pk, R)
    pk[0].rdh.update({k: base[0].rdh[k] for k in ('hsize', 'fee', 'prio', 'res0', 'ver')})
    return pk, meta


def fatal_stream(R):
    pk, meta = G.conforming_stream(R, nlinks=2, max_hbf=3)
    k = R.randrange(2, len(pk))
    pk[k].rdh['off'] = 16
    return pk, k


# =============================================================== C16
def run_c16(ck, ctx):
    R, tier = ctx['R'], ctx['tier']
    wd = os.path.join(L.CACHE, 'tmp', f'c16_{os.getpid()}')
    os.makedirs(wd, exist_ok=True)
    reps = 3 if tier == 'quick' else 25
    # ---- exit status table
    for rep in range(reps):
        clean, _ = G.conforming_stream(R, nlinks=2)
        bad, _ = erroneous_stream(R)
        fat, fk = fatal_stream(R)
        N = R.randint(1, 255)
        cases = [('clean', G.encode(clean), ['check', 'all', 'its'], 0), ('clean_E', G.encode(clean), ['check', 'all', 'its', '-E', str(N)], 0),
                 ('errors', G.encode(bad), ['check', 'all', 'its'], 0), ('errors_E', G.encode(bad), ['check', 'all', 'its', '-E', str(N)], N),
                 ('errors_E_mute', G.encode(bad), ['check', 'all', 'its', '-E', str(N), '-m'], N),
                 ('fatal', G.encode(fat), ['check', 'sanity'], 0), ('fatal_E', G.encode(fat), ['check', 'sanity', '-E', str(N)], N),
                 ('nonalice', bytes(R.getrandbits(8) | 0x80 for _ in range(500)), ['check', 'sanity', '-E', str(N)], 1),
                 ('text', b'this is not ALICE data at all, just a text file\n' * 20, ['check', 'all', 'its'], 1),
                 ('empty', b'', ['check', 'sanity', '-E', str(N)], 1),
                 ('view_clean', G.encode(clean), ['view', 'rdh', '-E', str(N)], 0)]
        # a failed custom check on otherwise clean data counts as a reported error
        ctoml = os.path.join(wd, 'cdps.toml'); open(ctoml, 'w').write('cdps = %d\n' % (len(clean) + 1))
        otoml = os.path.join(wd, 'cdps_ok.toml'); open(otoml, 'w').write('cdps = %d\n' % len(clean))
        cases += [('custom_fail_E', G.encode(clean), ['check', 'sanity', '-c', ctoml, '-E', str(N)], N),
                  ('custom_fail_E_mute', G.encode(clean), ['check', 'all', 'its', '-c', ctoml, '-E', str(N), '-m'], N),
                  ('custom_ok_E', G.encode(clean), ['check', 'sanity', '-c', otoml, '-E', str(N)], 0)]
        for name, data, args, want in cases:
            r = L.run_cli(args, data)
            ck.case((rep, name)); ck.count('exit_' + name)
            if r.exit != want:
                ck.violation('exit', {'what': 'exit status does not follow the contract', 'case': name, 'args': args, 'exit': r.exit, 'expected': want,
                                      'stderr': L.ANSI.sub('', r.stderr)[-400:], 'input_hex': data.hex()[:100000]})
        # the code filter applies to every reported message, also to the ones the custom checks add at the end of the run:
        # `-w 9001` shows the [E9001] message of a failed packet-count check, `-w 10` does not; the total is 1 either way
        for wcode, shown in (('9001', True), ('10', False), ('9002', False)):
            r = L.run_cli(['check', 'sanity', '-c', ctoml, '-w', wcode, '-E', str(N)], G.encode(clean))
            err = L.ANSI.sub('', r.stderr)
            ck.case((rep, 'custom_w', wcode)); ck.count('custom_fail_with_code_filter')
            tot = r.stats['error_stats']['total_errors'] if r.stats else None
            if ('[E9001]' in err) != shown or tot != 1 or r.exit != N:
                ck.violation('code_filter', {'what': 'a failed custom check (packet count) under -w: the [E9001] message must be shown iff 9001 is listed; total 1; exit N',
                                             'w': wcode, 'shown': '[E9001]' in err, 'expected_shown': shown, 'total': tot, 'exit': r.exit, 'stderr': err[-300:],
                                             'args': ['check', 'sanity', '-c', 'cdps.toml (cdps = packets + 1)', '-w', wcode, '-E', str(N)], 'input_hex': G.encode(clean).hex()[:100000]})
        r = subprocess.run([L.BIN, os.path.join(wd, 'does_not_exist.raw'), 'check', 'sanity', '-E', '9'], stdout=subprocess.PIPE, stderr=subprocess.PIPE)
        ck.case((rep, 'missing'))
        if r.returncode == 0:
            ck.violation('exit', {'what': 'missing input file: exit status 0', 'exit': r.returncode})
    # ---- invalid option combinations are rejected before any output is written
    clean, _ = G.conforming_stream(R, nlinks=1)
    inp = os.path.join(wd, 'in.raw'); open(inp, 'wb').write(G.encode(clean))
    txt = os.path.join(wd, 'stats.txt'); open(txt, 'w').write('{}')
    invalid = [['check', 'sanity', 'its-stave'], ['check', 'all', 'its', '-p', '5'], ['check', 'all', 'its', '-p', '5', '-s', 'L0_1'], ['check', 'sanity', '-E', '0'],
               ['check', 'sanity', '-i', txt], ['check', 'sanity', '-i', os.path.join(wd, 'nope.json')], ['view', 'rdh', '-p', '3', '-s', 'L1_1'],
               ['check', 'all', 'its', '-E', '256'], ['-o', os.path.join(wd, 'o.raw')], ['check', 'sanity', '-S', os.path.join(wd, 'x.json')]]
    for i, args in enumerate(invalid):
        so = os.path.join(wd, f's{i}.json'); oo = os.path.join(wd, f'o{i}.raw')
        extra = []
        if '-S' not in args: extra += ['-S', so, '-D', 'json']
        r = subprocess.run([L.BIN, inp] + args + extra, stdout=subprocess.PIPE, stderr=subprocess.PIPE)
        ck.case(('invalid', i)); ck.count('invalid_options')
        made = [p for p in (so, oo, os.path.join(wd, 'o.raw'), os.path.join(wd, 'x.json')) if os.path.exists(p)]
        if r.returncode == 0 or made or r.stdout:
            ck.violation('invalid', {'what': 'invalid option combination not rejected (non-zero exit) before any output is written', 'args': args, 'exit': r.returncode,
                                     'files_created': made, 'stdout': r.stdout[:200].decode('utf-8', 'replace')})
        for p in made: os.remove(p)
    # ---- accounting and display options
    reqs, rj = [], []
    for rep in range(reps):
        bad, _ = erroneous_stream(R, nfaults=R.randint(3, 14))
        data = G.encode(bad)
        base = L.run_cli(['check', 'all', 'its'], data)
        ck.case((rep, 'accounting'))
        if base.stats is None:
            ck.violation('abnormal', {'what': 'erroneous stream: no statistics', 'stderr': base.stderr[-300:], 'input_hex': data.hex()}); continue
        es = base.stats['error_stats']
        shown = [e for e in L.stderr_errors(base.stderr) if e[1] != 'FATAL']
        if es['total_errors'] != len(shown) or es['total_errors'] != len(es['reported_errors']) + len(es['custom_checks_stats_errors']):
            ck.violation('total', {'what': 'error total differs from the number of error messages shown (no display option active)', 'total': es['total_errors'],
                                   'shown': len(shown), 'input_hex': data.hex()})
        mrep = re.search(r'Total Errors\s*[|│]?\s*(\d+)', L.ANSI.sub('', base.stdout.decode('utf-8', 'replace')))
        if mrep and int(mrep.group(1)) != es['total_errors']:
            ck.violation('report_total', {'what': 'report total differs from statistics total', 'report': mrep.group(1), 'stats': es['total_errors'], 'input_hex': data.hex()})
        allcodes = [e[1] for e in base.errors]
        # mute: nothing displayed, same total, same exit
        m = L.run_cli(['check', 'all', 'its', '-m', '-E', '5'], data)
        if L.stderr_errors(m.stderr) or (m.stats and m.stats['error_stats']['total_errors'] != es['total_errors']) or m.exit != (5 if es['total_errors'] else 0):
            ck.violation('mute', {'what': '--mute-errors changes more than what is displayed', 'shown': L.stderr_errors(m.stderr)[:4], 'exit': m.exit, 'input_hex': data.hex()})
        # code filter: exactly the messages with the listed codes (incl. codes that are prefixes of others)
        present = sorted(set(c[1:] for c in allcodes if c.startswith('E')))
        shuffled = list(present); R.shuffle(shuffled)
        trial_lists = [[R.choice(present)] if present else ['10'], sorted(present, reverse=True)[:5] or ['60', '10'], shuffled[:6] or ['11', '10'], ['4'], ['44'], ['9'],
                       ['99'], ['1'], present[:2] + ['7'], ['40', '4', '44'], ['9999']]
        for codes in trial_lists[: (5 if tier == 'quick' else 11)]:
            w = L.run_cli(['check', 'all', 'its', '-w'] + codes, data)
            got = [e for e in L.stderr_errors(w.stderr) if e[1] != 'FATAL']
            want = [(e[0], e[1]) for e in base.errors if e[1].startswith('E') and e[1][1:] in codes]
            ck.case((rep, 'w', tuple(codes))); ck.count('code_filter_runs')
            if got != want or (w.stats and w.stats['error_stats']['total_errors'] != es['total_errors']):
                ck.violation('code_filter', {'what': '-w does not show exactly the messages with the listed codes (or changes the total)', 'codes': codes,
                                             'got': got[:8], 'want': want[:8], 'input_hex': data.hex()})
            reqs.append(f'run cmd=all target=its w={",".join(codes)} data={G.hexs(data)}'); rj.append(got)
        # error cap: at most N messages shown
        for cap in {1, 2, max(1, es['total_errors'] - 1), es['total_errors'], es['total_errors'] + 3}:
            c = L.run_cli(['check', 'all', 'its', '-e', str(cap)], data)
            got = [e for e in L.stderr_errors(c.stderr) if e[1] != 'FATAL']
            ck.case((rep, 'cap', cap)); ck.count('cap_runs')
            if len(got) > cap or c.exit != 0:
                ck.violation('cap', {'what': 'error cap N shows more than N messages (or abnormal exit)', 'cap': cap, 'shown': len(got), 'exit': c.exit, 'input_hex': data.hex()})
        reqs.append(f'run cmd=all target=its E=5 data={G.hexs(data)}'); rj.append([(e[0], e[1]) for e in base.errors])
    model = model_run(reqs)
    dis = []
    for q, m, got in zip(reqs, model, rj):
        if m['errors'] is None: dis.append((0, q[:120], 'ok', m['raw'][:80])); continue
        ms = [tuple(t.split(':')) for t in m['shown'] if t != 'FATAL' and not t.startswith('custom')]
        gs = [(str(a), b) for a, b in got]
        if sorted(ms) != sorted(gs):
            dis.append((0, q[:160], str(gs[:6]), str(ms[:6])))
    ck.corr['display_model'] = dict(cases=len(reqs), disagreements=len(dis))
    report_dis(ck, 'display_model', dis)
    shutil.rmtree(wd, ignore_errors=True)
    ck.sample(dict(exit_cases=['clean', 'errors_E', 'fatal_E', 'nonalice', 'empty', 'missing'], invalid=invalid[:3]))


# =============================================================== C15
def flatten_stats(st):
    """statistics JSON -> the model's key=value tokens (strings hex-free: messages are hashed to keep the line short)"""
    import hashlib
    r, e = st['rdh_stats'], st['error_stats']
    h = lambda m: hashlib.sha1(m.encode()).hexdigest()[:12]
    o = lambda v: '-' if v is None else str(v)
    lst = lambda l: '-' if not l else ','.join(map(str, l))
    from checks_scan import TRIG_NAMES
    toks = dict(rdhs_seen=r['rdhs_seen'], rdhs_filtered=r['rdhs_filtered'], rdh_version=o(r['rdh_version']), hbfs_seen=r['hbfs_seen'],
                payload_size=r['payload_size'], data_format=o(r['data_format']), links=lst(r['links']), fee_id=lst(r['fee_id']),
                system_id=o(r['system_id']), run_trigger_type='-' if r['run_trigger_type'] is None else f"{r['run_trigger_type'][0]}:{r['run_trigger_type'][1].replace(' ', '_')}",
                layer_staves_seen=lst(f'{a}/{b}' for a, b in r['its_stats']['layer_staves_seen']), trig=','.join(str(r['trigger_stats'][n]) for n in TRIG_NAMES),
                fatal_error='-' if e['fatal_error'] is None else h(e['fatal_error']), reported_errors=lst(h(m) for m in e['reported_errors']),
                custom_checks_stats_errors=lst(h(m) for m in e['custom_checks_stats_errors']), total_errors=e['total_errors'],
                unique_error_codes=lst(e['unique_error_codes']),
                staves_with_errors='-' if e['staves_with_errors'] is None else (lst(f'{a}/{b}' for a, b in e['staves_with_errors']) if e['staves_with_errors'] else ''),
                alpide='-' if st.get('alpide_stats') is None else ','.join(str(st['alpide_stats']['readout_flags'][n]) for n in
                                                                           ['chip_trailers_seen', 'busy_violations', 'data_overrun', 'transmission_in_fatal', 'flushed_incomplete', 'strobe_extended', 'busy_transitions']))
    return ' '.join(f'{k}={v}' for k, v in toks.items())


def json_leaves(obj, path=()):
    if isinstance(obj, dict):
        for k, v in obj.items(): yield from json_leaves(v, path + (k,))
    else:
        yield path, obj


def perturb(v, R):
    if isinstance(v, bool): return not v
    if isinstance(v, int): return v + 1
    if isinstance(v, str): return v + 'x'
    if v is None: return None
    if isinstance(v, list):
        if not v: return None          # cannot perturb type-preservingly without knowing the element type
        w = list(v)
        k = R.randrange(len(w))
        others = [x for x in w if x != w[k]]
        mode = R.randrange(4)
        if mode == 0 and others:
            w[k] = R.choice(others)        # an entry replaced by a value that is already in the list (same length, same set)
            return w
        if mode == 1 and len(w) >= 2 and others:
            j = R.choice([i for i, x in enumerate(w) if x != w[k]]); w[k], w[j] = w[j], w[k]    # two entries swapped (an ordered list)
            return w
        if R.random() < 0.5 or len(w) == 1:
            w[k] = perturb(w[k], R) if not isinstance(w[k], list) else [perturb(w[k][0], R)] + w[k][1:]
        else:
            del w[k]
        return w
    return None


def set_path(obj, path, v):
    for k in path[:-1]: obj = obj[k]
    obj[path[-1]] = v


def multiline_drift(ck, wd, st, inp, m, mute, pk, si):
    """the stored messages are compared as whole strings: for a multi-line message (RDH errors carry a context block, lane errors
       a list) both a change in its first line and a change confined to a continuation line are drift (seeded C15-m4: only the
       first line of each message compared). Returns the number of multi-line messages found."""
    extra = []
    for path, v in json_leaves(st):
        if path[-1] == 'reported_errors' and isinstance(v, list):
            multi = [k for k, x in enumerate(v) if isinstance(x, str) and '\n' in x.strip('\n')]
            for k in multi[:2]:
                lines = v[k].split('\n')
                j = max(i for i, ln in enumerate(lines) if ln.strip() and i > 0)
                w1 = list(v); w1[k] = '\n'.join(lines[:j] + [lines[j] + '7'] + lines[j + 1:]); extra.append((path, v, w1, 'continuation'))
                w2 = list(v); w2[k] = '\n'.join([lines[0] + '7'] + lines[1:]); extra.append((path, v, w2, 'first_line'))
    for path, v, pv, kind in extra:
        st2 = json.loads(json.dumps(st)); set_path(st2, path, pv)
        pp = os.path.join(wd, 'pert.json'); json.dump(st2, open(pp, 'w'))
        r3 = subprocess.run([L.BIN, inp] + mode_args(m) + mute + ['-i', pp, '-E', '9', '-v', '2'], stdout=subprocess.PIPE, stderr=subprocess.PIPE)
        err3 = L.ANSI.sub('', r3.stderr.decode('utf-8', 'replace'))
        ck.case((si, m, tuple(path), kind)); ck.count('drift_multiline_' + kind)
        if r3.returncode != 9 or 'Input stats did not match' not in err3:
            ck.violation('drift', {'what': 'a change inside a multi-line stored error message (%s) is not reported as a mismatch' % kind,
                                   'leaf': '.'.join(path), 'exit': r3.returncode, 'args': mode_args(m) + mute,
                                   'stderr': err3[-400:], 'input_hex': G.encode(pk).hex()[:200000]})
    return len(extra)


def run_c15(ck, ctx):
    R, tier = ctx['R'], ctx['tier']
    wd = os.path.join(L.CACHE, 'tmp', f'c15_{os.getpid()}')
    os.makedirs(wd, exist_ok=True)
    from FastPastaNames import COMPARED
    n = 4 if tier == 'quick' else 40
    reqs, expect = [], []
    for si in range(n):
        if si % 2: pk, meta = erroneous_stream(R, nlinks=R.randint(2, 5), nfaults=R.randint(2, 10))
        else: pk, meta = G.conforming_stream(R, nlinks=R.randint(1, 4))
        inp = os.path.join(wd, f'in{si}.raw'); open(inp, 'wb').write(G.encode(pk))
        for m in [('all', 'its'), ('all', 'stave'), ('sanity', None)]:
            for fmt in ('json', 'toml'):
                for mute in ([], ['-m']):
                    if tier == 'quick' and (si + len(mute) + (fmt == 'toml')) % 2: continue
                    sp = os.path.join(wd, f'st_{si}_{m[0]}_{m[1]}_{fmt}_{len(mute)}.{fmt}')
                    r1 = subprocess.run([L.BIN, inp] + mode_args(m) + mute + ['-S', sp, '-D', fmt], stdout=subprocess.PIPE, stderr=subprocess.PIPE)
                    ck.case((si, m, fmt, bool(mute), 'roundtrip')); ck.count(f'roundtrip_{fmt}')
                    if not os.path.exists(sp):
                        ck.violation('nostats', {'what': 'no statistics file written', 'exit': r1.returncode, 'stderr': r1.stderr.decode()[-300:], 'args': mode_args(m) + mute}); continue
                    total = None
                    r2 = subprocess.run([L.BIN, inp] + mode_args(m) + mute + ['-i', sp, '-E', '9', '-v', '2'], stdout=subprocess.PIPE, stderr=subprocess.PIPE)
                    err2 = L.ANSI.sub('', r2.stderr.decode('utf-8', 'replace'))
                    if 'Input stats matched collected stats' not in err2 or 'mismatch!' in err2:
                        ck.violation('roundtrip', {'what': 'a statistics file written by a run is not accepted by a rerun on the same input with the same options',
                                                   'args': mode_args(m) + mute, 'format': fmt, 'stderr': err2[-600:], 'input_hex': G.encode(pk).hex()[:200000]})
                    if fmt != 'json': continue
                    st = json.load(open(sp))
                    # every leaf of the written file must be a field the model's comparison knows
                    for path, v in json_leaves(st):
                        leaf = path[-1]
                        if leaf != 'is_finalized' and leaf not in COMPARED and not (leaf == 'alpide_stats' and v is None):
                            ck.violation('unknown_leaf', {'what': 'the written statistics file has a leaf the modelled comparison does not know', 'leaf': '.'.join(path)}, has_input=False)
                    # drift: every leaf perturbed one at a time
                    leaves = [(p, v) for p, v in json_leaves(st) if p[-1] != 'is_finalized']
                    if tier == 'quick': leaves = [l for i, l in enumerate(leaves) if (i + si) % 3 == 0]
                    multiline_drift(ck, wd, st, inp, m, mute, pk, si)
                    for path, v in leaves:
                        if path[-1] == 'run_trigger_type' and isinstance(v, list):
                            pv = [v[0] + 1, v[1]] if R.random() < 0.5 else [v[0], v[1] + 'x']     # a (u32, String) tuple
                        elif path[-1] == 'system_id':
                            pv = 'TPC' if v != 'TPC' else 'ITS'       # an enum: another valid value
                        else:
                            pv = perturb(v, R)
                        if pv is None: continue
                        st2 = json.loads(json.dumps(st)); set_path(st2, path, pv)
                        if path[0] == 'alpide_stats' and m[1] != 'stave': continue
                        pp = os.path.join(wd, 'pert.json'); json.dump(st2, open(pp, 'w'))
                        r3 = subprocess.run([L.BIN, inp] + mode_args(m) + mute + ['-i', pp, '-E', '9', '-v', '2'], stdout=subprocess.PIPE, stderr=subprocess.PIPE)
                        err3 = L.ANSI.sub('', r3.stderr.decode('utf-8', 'replace'))
                        ck.case((si, m, path)); ck.count('drift_leaf_' + path[-1])
                        if r3.returncode != 9 or 'Input stats did not match' not in err3:
                            ck.violation('drift', {'what': 'a changed statistic in the file is not reported as a mismatch with the any-errors exit status',
                                                   'leaf': '.'.join(path), 'old': str(v)[:100], 'new': str(pv)[:100], 'exit': r3.returncode, 'args': mode_args(m) + mute,
                                                   'stderr': err3[-400:], 'input_hex': G.encode(pk).hex()[:200000]})
                        reqs.append(f'statscmp {flatten_stats(st)} || {flatten_stats(st2)}'); expect.append('mismatch')
                    reqs.append(f'statscmp {flatten_stats(st)} || {flatten_stats(st)}'); expect.append('match')
        # dedicated: an unmuted run over a stream with header faults (multi-line messages), JSON, in every tier
        if si == 0:
            pkh, _ = G.conforming_stream(R, nlinks=2, max_hbf=3)
            for q in (len(pkh) // 3, 2 * len(pkh) // 3): pkh[q].rdh['res0'] = 5
            inph = os.path.join(wd, 'in_hdr.raw'); open(inph, 'wb').write(G.encode(pkh))
            for mh in [('all', 'its'), ('sanity', None)]:
                sph = os.path.join(wd, f'st_hdr_{mh[0]}.json')
                subprocess.run([L.BIN, inph] + mode_args(mh) + ['-S', sph, '-D', 'json'], stdout=subprocess.PIPE, stderr=subprocess.PIPE)
                if os.path.exists(sph):
                    nml = multiline_drift(ck, wd, json.load(open(sph)), inph, mh, [], pkh, 'hdr')
                    ck.count('multiline_messages_perturbed', nml)
        # input drift: a single-field change of the input must be detected with the old file
        pk2 = [p.clone() for p in pk]; pk2[-1].rdh['trig'] ^= 0x4
        inp2 = os.path.join(wd, f'in{si}_b.raw'); open(inp2, 'wb').write(G.encode(pk2))
        sp = os.path.join(wd, f'd_{si}.json')
        subprocess.run([L.BIN, inp, 'check', 'sanity', '-S', sp, '-D', 'json'], stdout=subprocess.PIPE, stderr=subprocess.PIPE)
        r4 = subprocess.run([L.BIN, inp2, 'check', 'sanity', '-i', sp, '-E', '9', '-m'], stdout=subprocess.PIPE, stderr=subprocess.PIPE)
        ck.case((si, 'input_drift'))
        if r4.returncode != 9:
            ck.violation('input_drift', {'what': 'a change of the input that alters a collected statistic is not reported against the old statistics file', 'exit': r4.returncode})
        # the comparison must also happen in the modes that print no report: views, filtered data to stdout
        for args in (['view', 'rdh'], ['view', 'its-readout-frames'], ['-f', str(pk[0].rdh['link'])], ['check', 'sanity', '-f', str(pk[0].rdh['link']), '-o', 'stdout']):
            spn = os.path.join(wd, f'n_{si}.json')
            if os.path.exists(spn): os.remove(spn)
            subprocess.run([L.BIN, inp] + args + ['-S', spn, '-D', 'json'], stdout=subprocess.PIPE, stderr=subprocess.PIPE)
            if not os.path.exists(spn): continue
            stn = json.load(open(spn))
            rA = subprocess.run([L.BIN, inp] + args + ['-i', spn, '-E', '9', '-v', '2'], stdout=subprocess.PIPE, stderr=subprocess.PIPE)
            stn['rdh_stats']['rdhs_seen'] += 1
            ppn = os.path.join(wd, 'pn.json'); json.dump(stn, open(ppn, 'w'))
            rB = subprocess.run([L.BIN, inp] + args + ['-i', ppn, '-E', '9', '-v', '2'], stdout=subprocess.PIPE, stderr=subprocess.PIPE)
            ck.case((si, 'noreport', tuple(args[:2]))); ck.count('noreport_modes')
            eA = L.ANSI.sub('', rA.stderr.decode('utf-8', 'replace')); eB = L.ANSI.sub('', rB.stderr.decode('utf-8', 'replace'))
            if 'mismatch!' in eA or 'Input stats matched collected stats' not in eA:
                ck.violation('roundtrip', {'what': 'a statistics file written by a run without report is not accepted by the same run', 'args': args, 'exit': rA.returncode, 'stderr': eA[-300:]})
            if rB.returncode != 9 or 'Input stats did not match' not in eB:
                ck.violation('drift', {'what': 'a changed statistic is not reported as a mismatch (any-errors exit status) in a mode that prints no report', 'args': args,
                                       'leaf': 'rdh_stats.rdhs_seen', 'exit': rB.returncode, 'stderr': eB[-300:], 'input_hex': G.encode(pk).hex()[:200000]})
    model = L.run_driver(reqs)
    dis = [(i, q[:200], e, m[:120]) for i, (q, m, e) in enumerate(zip(reqs, model, expect)) if not m.startswith(e)]
    ck.corr['statscmp_model'] = dict(cases=len(reqs), disagreements=len(dis))
    report_dis(ck, 'statscmp_model', dis)
    shutil.rmtree(wd, ignore_errors=True)
    ck.sample(dict(note='round trips json/toml x mute x modes; every leaf of the written JSON perturbed one at a time'))


# =============================================================== C05
def interleavings(seqs, R, k):
    """k random interleavings of the sender sequences preserving each sender's order"""
    out = []
    for _ in range(k):
        idx = [0] * len(seqs); a = []
        while True:
            cand = [i for i in range(len(seqs)) if idx[i] < len(seqs[i])]
            if not cand: break
            i = R.choice(cand) if R.random() < 0.8 else cand[-1]
            a.append(seqs[i][idx[i]]); idx[i] += 1
        out.append(a)
    return out


def all_interleavings(seqs):
    if all(not s for s in seqs): return [[]]
    out = []
    for i, s in enumerate(seqs):
        if s:
            rest = [x if j != i else x[1:] for j, x in enumerate(seqs)]
            out += [[s[0]] + t for t in all_interleavings(rest)]
    return out


def run_c05(ck, ctx):
    R, tier = ctx['R'], ctx['tier']
    ok, blog = L.build_hook()
    if not ok:
        ck.notes.append('hook-enabled build failed: ' + blog[-1500:])
    # ---- (1) the real StatsCollector fed every interleaving (small) / random interleavings (large)
    if ctx['harness_ok']:
        reqs, groups = [], []
        for case in range(12 if tier == 'quick' else 120):
            nsend = R.randint(2, 4) if case % 3 == 0 else R.randint(5, 13)
            seqs = []
            for sdr in range(nsend):
                base = 100000 * sdr          # each sender (link) owns a disjoint offset range
                n = R.randint(1, 3) if case % 3 == 0 else R.randint(2, 9)
                s, off = [], base
                for j in range(n):
                    off += R.choice([0, 0, 64, 160])
                    s.append(f'e:{off}:E{R.choice([10, 11, 30, 40, 991, 70])}:s{sdr}n{j}')
                seqs.append(s)
            seqs.append([f'l:{R.randint(0, 11)}' for _ in range(nsend)] + [f'f:{R.choice([3, 3, 4, 5])}' for _ in range(4)] + [f'r:{R.randint(1, 50)}', 'p:1234'])
            seqs.append([f't:{R.getrandbits(32)}' for _ in range(6)] + [f's:{R.randint(0, 6)}:{R.randint(0, 3)}' for _ in range(5)] + ['h:3'])
            if case % 3 == 0 and sum(len(s) for s in seqs[:nsend]) <= 6:
                ils = all_interleavings(seqs[:nsend])
                ils = [il + seqs[-2] + seqs[-1] for il in ils]
            else:
                ils = interleavings(seqs, R, 12 if tier == 'quick' else 60)
            for mute in (0, 1):
                g = []
                for il in ils:
                    g.append(len(reqs)); reqs.append(f'collect mute={mute} ' + ' '.join(il))
                groups.append((case, mute, g))
        impl = L.run_harness(reqs); model = L.run_driver(reqs)
        dis = [(i, q[:200], a[:300], b[:300]) for i, (q, a, b) in enumerate(zip(reqs, impl, model)) if a.strip() != b.strip()]
        ck.corr['collector'] = dict(cases=len(reqs), disagreements=len(dis))
        bad = set()
        for case, mute, g in groups:
            outs = {impl[i] for i in g}
            ck.case(('collector', case, mute)); ck.count('collector_interleavings', len(g))
            if len(outs) > 1:
                bad.update(g)
                a, b = g[0], next(i for i in g if impl[i] != impl[g[0]])
                ck.violation('collector_order', {'what': 'the finalised statistics collector depends on the arrival order of the messages',
                                                 'mute': mute, 'arrival_a': reqs[a], 'arrival_b': reqs[b], 'result_a': impl[a][:600], 'result_b': impl[b][:600],
                                                 'replay': f'feed both `collect` lines to {L.HARNESS}'})
        report_dis(ck, 'collector', dis, bad)
    # ---- (2) the real binary under schedule perturbation (hook H2)
    if not ok:
        ck.violation('hookbuild', {'what': 'the hook-enabled binary does not build; schedule exploration impossible', 'log': blog[-1500:]}, has_input=False)
        return
    wd = os.path.join(L.CACHE, 'tmp', f'c05_{os.getpid()}')
    os.makedirs(wd, exist_ok=True)
    nin = 2 if tier == 'quick' else 10
    nsched = 6 if tier == 'quick' else 40
    distinct_orders = 0
    for si in range(nin):
        pk, meta = erroneous_stream(R, nlinks=R.randint(6, 12), nfaults=R.randint(25, 60), max_hbf=4)
        # several errors at the same offset: stop bit 2 gives [E10] and [E11] on one RDH
        for _ in range(6):
            k = R.randrange(1, len(pk)); pk[k].rdh['stop'] = 2
        if si % 2 == 0:
            # links carry different RDH versions (each validator learns its own): per-link state must not be shared
            for p in pk[1:]:
                if p.rdh['ver'] in (6, 7): p.rdh['ver'] = 6 if p.rdh['link'] % 2 else 7
            for p in pk[1:]:
                if p.rdh['link'] == pk[0].rdh['link'] and p.rdh['ver'] in (6, 7): p.rdh['ver'] = pk[0].rdh['ver']
            ck.count('schedule_inputs_with_mixed_rdh_versions')
        raw = G.encode(pk)
        if si % 2 == 1 or tier == 'quick':
            # the input ends inside the payload of its last packet, whose header is faulty too: the reader thread's [E100] and the
            # link validator's header errors concern the same packet (seeded C05-m5: both reported at the same offset, so that the
            # stable sort leaves their order to the arrival order)
            last = pk[-1]; last.rdh['stop'] = 2
            raw = G.encode(pk); cut = len(last.encode()) - 64
            if cut > 8: raw = raw[:len(raw) - R.randint(1, min(cut - 1, 40))]
            ck.count('schedule_inputs_truncated_in_faulty_last_packet')
        inp = os.path.join(wd, f'in{si}.raw'); open(inp, 'wb').write(raw)
        for m, fmt, mute in [(('all', 'its'), 'json', []), (('all', 'stave'), 'toml', []), (('all', None), 'json', ['-m']), (('all', 'its'), 'toml', ['-m'])]:
            outs, orders = {}, set()
            for sd in range(nsched):
                sp = os.path.join(wd, f'st.{fmt}'); tr = os.path.join(wd, 'trace.txt')
                for f in (sp, tr):
                    if os.path.exists(f): os.remove(f)
                env = dict(os.environ, FASTPASTA_VERIF_SCHED=str(1 + sd + 1000 * ctx['seed'] % 99991), FASTPASTA_VERIF_TRACE=tr)
                r = subprocess.run([L.HOOKBIN, inp] + mode_args(m) + mute + ['-S', sp, '-D', fmt, '-E', '3'], stdout=subprocess.PIPE, stderr=subprocess.PIPE, env=env, timeout=300)
                errlines = [l for l in L.ANSI.sub('', r.stderr.decode('utf-8', 'replace')).split('\n') if l.startswith('ERROR')]
                report = '\n'.join(l for l in L.ANSI.sub('', r.stdout.decode('utf-8', 'replace')).split('\n') if 'Processed in' not in l and 'ms' not in l.split('|')[-1:][0])
                stats = open(sp, 'rb').read() if os.path.exists(sp) else b''
                key = (tuple(errlines), stats, r.returncode)
                outs.setdefault(key, sd)
                if os.path.exists(tr):
                    orders.add(hash(tuple(l for l in open(tr) if 'collector:error' in l)))
            if m == ('all', 'its') and fmt == 'json':
                # schedules in which ONE hand-off is much slower than everything else (hook FASTPASTA_VERIF_HOLD): the forwarder of
                # the reader's messages, the analysis thread, the dispatcher, the validators
                for hold in ('forwarder:recv:25', 'analysis:recv:8', 'dispatcher:send:1', 'validator:recv:1'):
                    sp = os.path.join(wd, f'st.{fmt}')
                    if os.path.exists(sp): os.remove(sp)
                    env = dict(os.environ, FASTPASTA_VERIF_HOLD=hold)
                    r = subprocess.run([L.HOOKBIN, inp] + mode_args(m) + mute + ['-S', sp, '-D', fmt, '-E', '3'], stdout=subprocess.PIPE, stderr=subprocess.PIPE, env=env, timeout=600)
                    errlines = [l for l in L.ANSI.sub('', r.stderr.decode('utf-8', 'replace')).split('\n') if l.startswith('ERROR')]
                    stats = open(sp, 'rb').read() if os.path.exists(sp) else b''
                    outs.setdefault((tuple(errlines), stats, r.returncode), 'hold ' + hold)
                    ck.count('schedules_with_one_slow_handoff')
            distinct_orders += len(orders)
            ck.case(('sched', si, m, fmt, bool(mute))); ck.count('schedules_run', nsched); ck.count('distinct_arrival_orders', len(orders))
            if len(outs) > 1:
                ks = list(outs)
                diff = 'error order' if ks[0][0] != ks[1][0] else ('statistics bytes' if ks[0][1] != ks[1][1] else 'exit status')
                ck.violation('schedule', {'what': 'results depend on thread scheduling: ' + diff, 'args': mode_args(m) + mute + ['-D', fmt], 'distinct_outcomes': len(outs),
                                          'seeds': [outs[k] for k in ks[:2]], 'first_differing_errors': [(a, b) for a, b in zip(ks[0][0], ks[1][0]) if a != b][:3],
                                          'input_hex': raw.hex()[:400000], 'replay': f'FASTPASTA_VERIF_SCHED=<seed> (or FASTPASTA_VERIF_HOLD=<point:ms> for a `hold` entry) {L.HOOKBIN} in.raw ' + ' '.join(mode_args(m) + mute)})
    ck.dist['distinct_arrival_orders_total'] = distinct_orders
    # ---- (3) very many errors from several concurrent validators (far beyond any 16-bit count): every run must store
    # every message, in the same (offset) order — whatever the validators' relative progress
    npk = 70000
    hb = bytearray()
    for i in range(npk):
        f = dict(G.RDH_DEFAULT); l = i % 3
        f.update(link=l, fee=0x1000 | l, orbit=10 + i // 6, page=(i // 3) % 2, stop=(i // 3) % 2, size=64, off=64, pkt=i & 0xFF, res0=1 if i else 0)
        hb += G.rdh_bytes(f)
    inp = os.path.join(wd, 'many.raw'); open(inp, 'wb').write(hb)
    outs = {}
    for rep in range(3 if tier == 'quick' else 8):
        sp = os.path.join(wd, 'many.json')
        if os.path.exists(sp): os.remove(sp)
        b = L.HOOKBIN if rep == 1 else L.BIN
        env = dict(os.environ, FASTPASTA_VERIF_SCHED=str(7 + rep)) if b == L.HOOKBIN else None
        r = subprocess.run([b, inp, 'check', 'sanity', '-m', '-S', sp, '-D', 'json', '-E', '3'], stdout=subprocess.PIPE, stderr=subprocess.PIPE, env=env, timeout=600)
        stats = open(sp, 'rb').read() if os.path.exists(sp) else b''
        outs.setdefault((stats, r.returncode), rep)
        ck.case(('many_errors', rep)); ck.count('many_error_runs')
        if rep == 0 and stats:
            es = json.loads(stats)['error_stats']
            offs = [int(m.split(':')[0], 16) for m in es['reported_errors']]
            want = [64 * i for i in range(1, npk)]
            if es['total_errors'] != npk - 1 or offs != want:
                ck.violation('many', {'what': 'with %d errors from three links the stored error list is not the complete, offset-ordered list' % (npk - 1),
                                      'total_errors': es['total_errors'], 'stored': len(offs), 'first_difference': next((i for i, (a, c) in enumerate(zip(offs, want)) if a != c), min(len(offs), len(want))),
                                      'input': '70000 RDH-only packets on links 0,1,2; RDH0 reserved bit set in all but the first', 'args': ['check', 'sanity', '-m']})
    if len(outs) > 1:
        ck.violation('schedule', {'what': 'results depend on thread scheduling: statistics file / exit status differ between runs on an input with %d errors' % (npk - 1),
                                  'distinct_outcomes': len(outs), 'args': ['check', 'sanity', '-m', '-D', 'json'],
                                  'input': '70000 RDH-only packets on links 0,1,2; RDH0 reserved bit set in all but the first'})
    shutil.rmtree(wd, ignore_errors=True)
    ck.sample(dict(note='real binary with hook H2 run under different perturbation seeds; arrival order at the collector traced'))


# =============================================================== C19
ROW_RE = re.compile(r'^\s*([0-9A-F]+): (RDH|IHW|TDH|TDT|DDW|CDW|DATA) (.*)$')


def parse_frame_view(stdout):
    rows = []
    for l in L.ANSI.sub('', stdout.decode('utf-8', 'replace')).split('\n'):
        m = ROW_RE.match(l)
        if not m: continue
        off, typ, rest = int(m.group(1), 16), m.group(2), m.group(3)
        if typ == 'RDH':
            mm = re.match(r'v(\d+) stop=(\d+) stave: L(\d+)_(\d+)\s+(\S+)\s+#\s*(\d+)\s+(\S+)\s+(\d+)_\s*(\d+)', rest)
            rows.append(('R', off) + (tuple(mm.groups()) if mm else ('?',)))
        else:
            mb = re.match(r'\[((?:[0-9A-F]{2} ?){10})\]\s*(.*)$', rest)
            rows.append(('W', off, typ, mb.group(1).replace(' ', '') if mb else '?', ' '.join(mb.group(2).split()) if mb else '?'))
    return rows


def lane_status(b7):
    lanes = [(b >> (2 * j)) & 3 for b in b7 for j in range(4)]
    if any(x == 3 for x in lanes): return 'Fatal'
    if any(x & 2 for x in lanes): return 'Error'
    if any(x & 1 for x in lanes): return 'Warning'
    return '-'


def expected_frame_rows(data, flt, show_data):
    """model-free: rows computed from the bytes"""
    from checks_scan import matches
    rows = []
    for o, h, p in chain_walk(data):
        if not matches(flt, h): continue
        f = hdr_fields(h)
        t = f['trig']
        trig = 'SOC' if t >> 9 & 1 else 'SOT' if t >> 7 & 1 else 'HB' if t >> 1 & 1 else 'PhT' if t >> 4 & 1 else 'Other'
        d = f['det']
        ls = 'Fatal' if d >> 3 & 1 else 'Error' if d >> 2 & 1 else 'Warning' if d >> 1 & 1 else 'Missing' if d & 1 else '-'
        rows.append(('R', o, str(f['ver']), str(f['stop']), str((f['fee'] >> 12) & 7), str(f['fee'] & 63), trig, str(f['link']), ls, str(f['orbit']), str(f['bc'])))
        slot = 16 if f['df'] == 0 else 10
        # words as laid out for the header's data format (the generator keeps layout and format in agreement)
        n = len(p) // slot if slot == 16 else (len(p) - (len(p) - len(p.rstrip(b'\xff')))) // 10
        for k in range(n):
            w = p[k * slot:k * slot + 10]
            idb = w[9]
            typ = {0xE0: 'IHW', 0xE8: 'TDH', 0xF0: 'TDT', 0xE4: 'DDW', 0xF8: 'CDW'}.get(idb)
            if typ is None and ((idb >> 5 == 1 and (idb & 31) <= 8) or (idb >> 5 == 2 and (idb & 7) <= 6)): typ = 'DATA'
            if typ is None or (typ == 'DATA' and not show_data): continue
            W = int.from_bytes(w, 'little')
            if typ == 'TDH':
                tr = 'SOC' if W >> 9 & 1 else 'Internal' if W >> 12 & 1 else 'PhT' if W >> 4 & 1 else 'Other'
                attrs = ' '.join(x for x in [tr, 'Cont.' if W >> 14 & 1 else '', 'No data' if W >> 13 & 1 else 'Data!', f'{(W >> 32) & 0xFFFFFFFF}_', str((W >> 16) & 0xFFF)] if x)
                attrs = attrs.replace('_ ', '_ ') 
            elif typ == 'TDT': attrs = ('Complete' if W >> 64 & 1 else 'Split') + ' ' + lane_status(w[:7])
            elif typ == 'DDW': attrs = lane_status(w[:7])
            else: attrs = ''
            rows.append(('W', o + 64 + k * slot, typ, w.hex().upper(), attrs))
    return rows


def norm_attrs(a): return re.sub(r'_\s+', '_', ' '.join(a.split()))


def run_c19(ck, ctx):
    R, tier = ctx['R'], ctx['tier']
    n = 6 if tier == 'quick' else 60
    jobs = []
    for si in range(n):
        if si % 3 == 2: pk, meta = erroneous_stream(R, nlinks=R.randint(1, 3), nfaults=4, exclude=('padding_over_15', 'rdh_fee_reserved', 'rdh_fee_stave48', 'rdh_df3'))
        else: pk, meta = G.conforming_stream(R, nlinks=R.randint(1, 4))
        # flag combinations of TDT / DDW0 lane status and detector-field status bits
        for p in pk:
            p.rdh['det'] = R.choice([0, 1, 2, 4, 8, 3, 12, 0x10, 0xFC0])
            for k, w in enumerate(p.words):
                if w[9] in (0xF0, 0xE4) and R.random() < 0.7:
                    # two status bits per lane, four lanes per byte: single states, every pair of different states in neighbouring
                    # lanes (also across a byte border), mixed bytes, random bytes — but often no fatal lane at all, so that the
                    # weaker states decide what is shown
                    b = bytearray(w)
                    if R.random() < 0.5:
                        b[R.randrange(7)] = R.choice([1, 2, 3, 0x10, 0x80, 0xC0, 0x55, 0xAA])
                    else:
                        alph = [0, 0, 0, 1, 2, 4, 6, 8, 9, 0x18, 0x24, 0x60, 0x80, 0x81, 0x90, 0x42, 0x55, 0xAA, 0x66, 0x99] + ([3, 0x0C, 0xC0, R.getrandbits(8)] if R.random() < 0.3 else [])
                        for q in range(7): b[q] = R.choice(alph)
                    p.words[k] = bytes(b)
        data = G.encode(pk)
        l = pk[R.randrange(len(pk))].rdh
        for view in ('rdh', 'frames', 'data'):
            for flt in (None, ('link', l['link']), ('fee', l['fee'])):
                for styled in (False, True):
                    jobs.append((si, view, flt, styled, data))

    # `view rdh` walks the chain by offset-to-next and never reads the payload: it also serves paged layouts in which
    # the next RDH lies beyond the end of the payload (offset to next > memory size); every column must be the header's
    pk = G.random_framed_stream(R, 30, max_payload=200, nlinks=3)
    blob = bytearray()
    for p in pk:
        pay = p.payload(); slack = R.choice([0, 16, 64, 512])
        f = dict(p.rdh); f['size'] = 64 + len(pay); f['off'] = 64 + len(pay) + slack
        blob += G.rdh_bytes(f) + pay + bytes(R.getrandbits(8) for _ in range(slack))
    for styled in (False, True):
        jobs.append((1000, 'rdh', None, styled, bytes(blob)))

    def job(j):
        si, view, flt, styled, data = j
        args = ['view', {'rdh': 'rdh', 'frames': 'its-readout-frames', 'data': 'its-readout-frames-data'}[view]] + ([] if styled else ['-d']) + flt_args(flt)
        return L.run_cli(args, data, stats=False)
    res = L.pmap(job, jobs)
    reqs, rj = [], []
    plain = {}
    for j, r in zip(jobs, res):
        si, view, flt, styled, data = j
        ck.case((si, view, flt, styled)); ck.count(f'view_{view}_{"styled" if styled else "plain"}')
        if r.exit == 1 and 'Initial RDH0 deserialization failed sanity check' in r.stderr:
            # the planted fault hit the very first RDH0: the input is refused at start-up (the global start-up gate recorded as a
            # known finding under C02/C06/C08); nothing is shown, which is not a statement about the views
            ck.count('refused_at_startup'); continue
        if r.exit != 0:
            ck.violation('abnormal', {'what': 'view ended abnormally', 'view': view, 'exit': r.exit, 'stderr': L.ANSI.sub('', r.stderr)[-300:], 'input_hex': data.hex()[:200000]},
                         key='stave-layer-or-alpide-panic' if 'Invalid layer' in r.stderr else None)
            continue
        if view == 'rdh':
            from checks_scan import matches
            got = [(o, [t for t in toks]) for o, toks in parse_view_rdh(L.ANSI.sub('', r.stdout.decode('utf-8', 'replace')).encode(), start=10 if styled else 11)]
            exp = [(o, hdr_fields(h)) for o, h, p in chain_walk(data) if matches(flt, h)]
            ok = len(got) == len(exp) and all(o == eo and int(t[0]) == f['ver'] and int(t[2]) == f['fee'] and int(t[4]) == f['off'] and int(t[5]) == f['link'] and int(t[7]) == f['bc']
                                               and int(t[8], 16) == f['orbit'] and int(t[9]) == f['df'] and int(t[10], 16) == f['trig'] and int(t[11]) == f['page']
                                               and int(t[12]) == f['stop'] and int(t[13], 16) == f['det'] for (o, t), (eo, f) in zip(got, exp))
            if not ok:
                ck.violation('rdh_rows', {'what': '`view rdh` rows differ from the RDHs in the data', 'styled': styled, 'filter': flt, 'rows': len(got), 'expected': len(exp),
                                          'input_hex': data.hex()[:200000]})
            canon = [(o, tuple(t)) for o, t in got]
        else:
            got = parse_frame_view(r.stdout)
            exp = expected_frame_rows(data, flt, view == 'data')
            g2 = [x[:4] + (norm_attrs(x[4]),) if x[0] == 'W' else x for x in got]
            e2 = [x[:4] + (norm_attrs(x[4]),) if x[0] == 'W' else x for x in exp]
            if g2 != e2:
                k = next((i for i, (a, b) in enumerate(zip(g2, e2)) if a != b), min(len(g2), len(e2)))
                ck.violation('frame_rows', {'what': 'readout-frame view rows differ from what is in the data (offset / bytes / type / attributes)', 'view': view, 'styled': styled,
                                            'filter': flt, 'first_difference_index': k, 'got': str(g2[k:k + 2]), 'expected': str(e2[k:k + 2]), 'input_hex': data.hex()[:200000]})
            canon = g2
            if not styled:
                reqs.append(f'view kind={view} filter={flt_token(flt)} data={G.hexs(data)}'); rj.append(g2)
        key = (si, view, flt)
        if not styled: plain[key] = canon
        elif key in plain and plain[key] != canon:
            ck.violation('styled', {'what': 'styled and unstyled output carry different content', 'view': view, 'filter': flt, 'input_hex': data.hex()[:200000]})
    model = L.run_driver(reqs)
    dis = []
    for q, m, g in zip(reqs, model, rj):
        mr = []
        for t in m.replace('INCOMPLETE ', '').split(' '):
            if not t: continue
            parts = t.split(':')
            if parts[0] == 'R': mr.append(('R', int(parts[1])) + tuple(parts[2:]))
            else: mr.append(('W', int(parts[1]), {'ihw': 'IHW', 'tdh': 'TDH', 'tdt': 'TDT', 'ddw': 'DDW', 'cdw': 'CDW', 'data': 'DATA'}[parts[2]], parts[3],
                             norm_attrs(' '.join(x.replace('_', ' ') if i != 3 else x for i, x in enumerate(parts[4].split('|')) if x)) if len(parts) > 4 else ''))
        g3 = [x[:4] + (x[4].replace('_ ', '_'),) if x[0] == 'W' else x for x in g]
        m3 = [x[:4] + (re.sub(r'(\d+) (\d+)$', r'\1_\2', x[4]) if x[2] == 'TDH' else x[4],) if x[0] == 'W' else x for x in mr]
        if [x[:4] for x in g3] != [x[:4] for x in m3]:
            dis.append((0, q[:120], str(g3[:3]), str(m3[:3])))
    ck.corr['view_model'] = dict(cases=len(reqs), disagreements=len(dis))
    report_dis(ck, 'view_model', dis)
    ck.sample(dict(views=['rdh', 'its-readout-frames', 'its-readout-frames-data'], styled=[False, True]))


# =============================================================== C04
def mutate_stream(R, base):
    """structure-aware mutation of a conforming stream; returns bytes"""
    pk = [p.clone() for p in base]
    for _ in range(R.randint(1, 6)):
        kind = R.choice(['rdh_field', 'rdh_extreme', 'word_bits', 'word_random', 'word_insert', 'word_delete', 'word_dup', 'word_swap', 'splice',
                         'size', 'offset', 'layer7', 'raw_bits', 'ids', 'fatal_ape', 'lane_garbage'])
        i = R.randrange(len(pk)); p = pk[i]
        if kind == 'rdh_field':
            f = R.choice(list(G.RDH_DEFAULT.keys()))
            if p.rdh.get(f) is not None: p.rdh[f] = p.rdh[f] ^ (1 << R.randrange(16))
        elif kind == 'rdh_extreme':
            f = R.choice(['fee', 'link', 'bc', 'orbit', 'df', 'trig', 'page', 'stop', 'det', 'sysid', 'ver', 'hsize', 'dw'])
            p.rdh[f] = R.choice([0, 1, 0xFF, 0xFFFF, 0xFFFFFFFF, 0x7FFF])
        elif kind == 'layer7': p.rdh['fee'] = (p.rdh['fee'] & 0x0FFF) | 0x7000
        elif kind == 'size': p.rdh['size'] = R.choice([0, 63, 64, 65, (p.size() + R.randint(-20, 20)) & 0xFFFF, 0xFFFF])
        elif kind == 'offset': p.rdh['off'] = R.choice([0, 63, 64, 10064, 10065, (p.size() + R.randint(-20, 20)) & 0xFFFF, 0xFFFF])
        elif p.words:
            k = R.randrange(len(p.words))
            if kind == 'word_bits': w = bytearray(p.words[k]); w[R.randrange(10)] ^= 1 << R.randrange(8); p.words[k] = bytes(w)
            elif kind == 'word_random': p.words[k] = bytes(R.getrandbits(8) for _ in range(10))
            elif kind == 'word_insert': p.words.insert(k, R.choice([G.ihw(R.getrandbits(28)), G.tdh(cont=R.randint(0, 1), nodata=R.randint(0, 1)), G.tdt(R.randint(0, 1)), G.ddw0(), G.cdw(1, 2), bytes(R.getrandbits(8) for _ in range(10))]))
            elif kind == 'word_delete': del p.words[k]
            elif kind == 'word_dup': p.words.insert(k, p.words[k])
            elif kind == 'word_swap' and len(p.words) > 1: j = R.randrange(len(p.words)); p.words[k], p.words[j] = p.words[j], p.words[k]
            elif kind == 'ids': w = bytearray(p.words[k]); w[9] = R.choice([0x29, 0x3F, 0x47, 0x5F, 0x00, 0xFF, 0xE0, 0xE8, 0xF0, 0xE4, 0xF8, 0x2A]); p.words[k] = bytes(w)
            elif kind == 'fatal_ape': w = bytearray(p.words[k]); w[0] = R.choice([0xF4, 0xF5, 0xFC]); p.words[k] = bytes(w)
            elif kind == 'lane_garbage': w = bytearray(p.words[k]); w[:9] = bytes(R.choice([0, 0xFF, 0xA0, 0xE0, 0xB0, 0xC0, R.getrandbits(8)]) for _ in range(9)); p.words[k] = bytes(w)
        if kind == 'splice' and len(pk) > 2:
            j = R.randrange(len(pk)); pk[i], pk[j] = pk[j], pk[i]
    data = bytearray(G.encode(pk))
    if R.random() < 0.3:
        for _ in range(R.randint(1, 8)): data[R.randrange(len(data))] ^= 1 << R.randrange(8)
    if R.random() < 0.2: data = data[:R.randrange(len(data) + 1)]
    return bytes(data)


def run_c04(ck, ctx):
    R, tier = ctx['R'], ctx['tier']
    wd = os.path.join(L.CACHE, 'tmp', f'c04_{os.getpid()}')
    os.makedirs(wd, exist_ok=True)
    toml = os.path.join(wd, 'c.toml'); open(toml, 'w').write('cdps = 10\ntriggers_pht = 0\nchip_count_ob = 7\nchip_orders_ob = [[0,1,2,3,4,5,6],[8,9,10,11,12,13,14]]\nrdh_version = 7\n')
    n = 120 if tier == 'quick' else 4000
    cmds = [['check', 'sanity'], ['check', 'sanity', 'its'], ['check', 'all'], ['check', 'all', 'its'], ['check', 'all', 'its-stave'],
            ['view', 'rdh'], ['view', 'its-readout-frames'], ['view', 'its-readout-frames-data'], ['-f', '0', '-o', os.devnull]]
    opts = [[], ['-m'], ['-e', '3'], ['-E', '9'], ['-c', toml], ['-f', '1'], ['-F', '12300'], ['-w', '10', '40']]
    base_streams = [G.conforming_stream(R, nlinks=R.randint(1, 3), max_hbf=2)[0] for _ in range(6)]
    jobs = []
    for i in range(n):
        r = i % 10
        if r == 0: data = bytes(R.getrandbits(8) for _ in range(R.choice([0, 1, 7, 8, 9, 63, 64, 65, 200, 5000])))
        elif r == 1:
            data = bytearray(R.getrandbits(8) for _ in range(R.randint(64, 3000)))
            data[0:8] = bytes([7, 0x40, R.randrange(48), R.randrange(7) << 4, 0, 32, 0, 0]); data[8:12] = struct_pack_off(R)
            data = bytes(data)
        elif r in (2, 3):
            # lane-level damage to ALPIDE data (stave checks): control bytes in odd places, a lane whose data ends
            # right after a chip header / empty-frame byte, lanes cut short
            pk = [p.clone() for p in R.choice(base_streams)]
            cand = [(a, k) for a, p in enumerate(pk) for k, w in enumerate(p.words) if 0x20 <= w[9] <= 0x5E]
            for _ in range(R.randint(1, 4)):
                if not cand: break
                a, k = R.choice(cand)
                if k >= len(pk[a].words): continue
                w = bytearray(pk[a].words[k]); lane = w[9]
                op = R.randrange(3)
                if op == 0:
                    w[R.randrange(9)] = R.choice([0xA0, 0xA5, 0xE0, 0xE7, 0xB0, 0xBC, 0xF0, 0xF1, 0xF4, 0xFA, 0xFF, 0xC5, 0x00])
                elif op == 1:
                    w[8] = R.choice([0xA0, 0xE0]) | R.randrange(16)            # header as the very last byte …
                    pk[a].words[k] = bytes(w)
                    pk[a].words = [x for j, x in enumerate(pk[a].words) if not (j > k and x[9] == lane)]   # … and nothing of that lane after it
                    for b in range(a + 1, len(pk)):
                        if pk[b].rdh['link'] == pk[a].rdh['link']:
                            pk[b].words = [x for x in pk[b].words if x[9] != lane or x[9] >= 0xE0]
                    continue
                else:
                    w[0:9] = bytes(R.choice([0, 0xFF, R.getrandbits(8)]) for _ in range(9))
                pk[a].words[k] = bytes(w)
            data = G.encode(pk)
        elif r == 4:
            # several findings AND an input that ends inside a payload (the message about the incomplete packet is produced by the
            # reader, all others by the validators: they meet in the collector's sort / code extraction / FEE-ID lookup)
            pk = [p.clone() for p in R.choice(base_streams)]
            for a in range(min(len(pk), R.randint(2, 4))):      # damaged identifiers in the first packets: findings in front of the cut
                if pk[a].words:
                    k = R.randrange(len(pk[a].words)); w = bytearray(pk[a].words[k]); w[9] ^= R.choice([0x01, 0x02, 0x10]); pk[a].words[k] = bytes(w)
            offs = G.offsets(pk)
            cand = [a for a in range(len(pk)) if pk[a].size() > 80]
            # the position quoted for the incomplete packet is its end: prefer ends whose hexadecimal form starts with a letter
            # (every message's leading offset is parsed back by the collector)
            lett = [a for a in cand if a >= 2 and '%X' % (offs[a] + pk[a].size()) > '9']
            a = R.choice(lett or cand) if cand else len(pk) - 1
            data = G.encode(pk)[:offs[a] + 64 + R.randrange(1, max(2, pk[a].size() - 64))]
            ck.count('truncated_in_payload_with_findings')
        else: data = mutate_stream(R, R.choice(base_streams))
        cmd = R.choice(cmds) if r not in (2, 3) else ['check', 'all', 'its-stave']
        opt = R.choice(opts) if cmd[0] == 'check' else R.choice([[], ['-f', '1'], ['-d']]) if cmd[0] == 'view' else []
        if cmd == ['check', 'all', 'its-stave'] and R.random() < 0.3: opt = ['-s', 'L%d_%d' % (R.randint(0, 6), R.randint(0, 11)), '-p', str(R.randint(1, 3563))]
        if r == 4:
            cmd = R.choice([['check', 'sanity', 'its'], ['check', 'all', 'its'], ['check', 'all', 'its-stave'], ['check', 'all', 'its'], ['-f', str(pk[0].rdh['link']), '-o', os.devnull]])
            opt = R.choice([[], ['-m'], ['-E', '9']]) if cmd[0] == 'check' else []
        jobs.append((i, cmd, opt, R.choice(['file', 'pipe']), data))

    def job(j):
        i, cmd, opt, via, data = j
        args = [a for a in cmd + opt]
        if '-f' in cmd and '-f' in opt: args = cmd
        return L.run_cli(args, data, via=via, stats=False, timeout=20 + len(data) // 2000)
    res = L.pmap(job, jobs)
    reqs, rj = [], []
    for j, r in zip(jobs, res):
        i, cmd, opt, via, data = j
        ck.case((i,)); ck.count('cmd_' + '_'.join(cmd[:3]).replace(os.devnull, 'null')); ck.count('via_' + via)
        err = L.ANSI.sub('', r.stderr)
        ok = (not r.timeout) and r.exit in (0, 1, 9) and 'panicked' not in err
        ck.count('exit_%s' % r.exit)
        if not ok:
            key = 'layer7-panic' if 'Invalid layer number' in err else None
            ck.violation('crash', {'what': 'abnormal termination (panic / abort / signal / timeout) or exit status outside {0, 1, N}', 'args': cmd + opt, 'via': via,
                                   'exit': r.exit, 'timeout': r.timeout, 'wall_s': round(r.wall, 2), 'stderr': err[-600:], 'input_hex': data.hex()}, key=key)
        if cmd[0] == 'check' and via == 'file' and not opt and len(data) < 60000:
            tgt = {2: 'none', 3: 'its' if cmd[-1] == 'its' else 'stave'}[len(cmd)]
            reqs.append(f'run cmd={cmd[1]} target={tgt} data={G.hexs(data)}'); rj.append((j, r))
    model = L.run_driver(reqs)
    dis = []
    for q, m, (j, r) in zip(reqs, model, rj):
        mp = m.startswith('PANIC')
        ip = 'panicked' in r.stderr
        if mp != ip: dis.append((0, q[:200], f'exit={r.exit} {L.ANSI.sub("", r.stderr)[-200:]}', m[:100]))
    ck.corr['panic_model'] = dict(cases=len(reqs), disagreements=len(dis))
    report_dis(ck, 'panic_model', dis)
    # ---- time bound proportional to the input size on a *large* input (far more packets than the bounded queues hold) whose
    # processing ends early (error cap / fatal framing error in mid-stream), for every command mode combined with a filter and an
    # output destination: the process must end by itself. (Small inputs never fill the queues, so a hand-off that can block is
    # invisible on them.)
    npk = 30000 if tier == 'quick' else 120000
    hb = bytearray()
    for i in range(npk):
        f = dict(G.RDH_DEFAULT); f.update(link=i % 2 * 3, fee=0x1000 | (i % 2 * 3), orbit=10 + i // 4, page=(i // 2) % 2, stop=(i // 2) % 2, size=64, off=64, pkt=i & 0xFF)
        if i == npk // 3: f['res0'] = 1
        if i == 2 * npk // 3: f['off'] = 3        # fatal: offset to next out of range
        hb += G.rdh_bytes(f)
    big = os.path.join(wd, 'big.raw'); open(big, 'wb').write(hb)
    outp = os.path.join(wd, 'big_out.raw')
    bound = 20.0 + len(hb) / 1e6
    for args in (['check', 'all', '-e', '1'], ['check', 'all', '-e', '1', '-f', '0', '-o', outp], ['check', 'sanity', 'its', '-f', '0', '-o', outp],
                 ['view', 'rdh', '-f', '3', '-o', outp], ['view', 'rdh'], ['-f', '0', '-o', outp], ['check', 'all', 'its-stave', '-e', '2', '-F', str(0x1000), '-o', outp]):
        t0 = time.time()
        p = subprocess.Popen([L.BIN, big] + args, stdout=subprocess.DEVNULL, stderr=subprocess.PIPE)
        ck.case(('big_early_stop', tuple(args))); ck.count('big_early_stop_runs')
        try:
            _, err = p.communicate(timeout=bound)
        except subprocess.TimeoutExpired:
            p.kill(); p.communicate()
            ck.violation('hang', {'what': 'a %d-packet input whose processing stops early (error cap / fatal error in mid-stream) does not end within %.0f s' % (npk, bound),
                                  'args': args, 'input': '%d RDH-only packets on links 0 and 3; RDH0 fault in packet %d, offset-to-next 3 in packet %d' % (npk, npk // 3, 2 * npk // 3)})
            continue
        err = L.ANSI.sub('', err.decode('utf-8', 'replace'))
        if 'panicked' in err or p.returncode not in (0, 1):
            ck.violation('crash', {'what': 'large input with early stop: panic / abnormal exit', 'args': args, 'exit': p.returncode, 'stderr': err[-400:]})
    # ... and the same with a SLOW consumer: every payload is garbage (several findings per packet to format), so the reader runs
    # far ahead of the validators and sits blocked on the full queue when the error cap stops the analysis (seeded C04-m4: a
    # receiver of the reader queue kept alive by the main thread - the reader then sleeps in `send` for ever)
    npk2 = 40000 if tier == 'quick' else 150000
    one = lambda i: G.rdh_bytes(dict(G.RDH_DEFAULT, link=0, fee=0x1000, orbit=10 + i // 2, page=i % 2, stop=i % 2, size=64 + 80, off=64 + 80, pkt=i & 0xFF)) + b'\x3D' * 80
    big2 = os.path.join(wd, 'big_garbage.raw')
    with open(big2, 'wb') as fh:
        for i in range(npk2): fh.write(one(i))
    bound2 = 30.0 + npk2 * 144 / 1e6 * 5
    for args in (['check', 'all', 'its', '-m', '-e', '20000'], ['check', 'all', 'its', '-m', '-e', '5000'], ['check', 'sanity', 'its', '-m', '-e', '20000']):
        p = subprocess.Popen([L.BIN, big2] + args, stdout=subprocess.DEVNULL, stderr=subprocess.PIPE)
        ck.case(('big_early_stop_slow_consumer', tuple(args))); ck.count('big_early_stop_runs')
        try:
            _, err = p.communicate(timeout=bound2)
        except subprocess.TimeoutExpired:
            p.kill(); p.communicate()
            ck.violation('hang', {'what': 'a %d-packet input of garbage payloads whose analysis is stopped by the error cap while the reader is far ahead does not end within %.0f s' % (npk2, bound2),
                                  'args': args, 'input': '%d packets on one link, each payload = 80 bytes 0x3D' % npk2})
            continue
        err = L.ANSI.sub('', err.decode('utf-8', 'replace'))
        if 'panicked' in err or p.returncode not in (0, 1):
            ck.violation('crash', {'what': 'large garbage input with error cap: panic / abnormal exit', 'args': args, 'exit': p.returncode, 'stderr': err[-400:]})
    shutil.rmtree(wd, ignore_errors=True)
    ck.sample(dict(args=jobs[5][1] + jobs[5][2], via=jobs[5][3], input_len=len(jobs[5][4])))


def struct_pack_off(R):
    import struct
    o = R.choice([64, 80, 160, 10064, 63, 0, 10065, 0xFFFF])
    return struct.pack('<HH', o, R.choice([o, 64, 0, 0xFFFF]))


# =============================================================== C17
def run_c17(ck, ctx):
    R, tier = ctx['R'], ctx['tier']
    ok, blog = L.build_hook()
    wd = os.path.join(L.CACHE, 'tmp', f'c17_{os.getpid()}')
    os.makedirs(wd, exist_ok=True)
    pk, meta = G.conforming_stream(R, nlinks=8, max_hbf=8)
    base = G.encode(pk)
    big = os.path.join(wd, 'big.raw'); open(big, 'wb').write(base * (12 if tier == 'quick' else 150))
    bad, _ = erroneous_stream(R, nlinks=6, nfaults=40, max_hbf=5)
    errf = os.path.join(wd, 'err.raw'); open(errf, 'wb').write(G.encode(bad) * 20)
    fat = os.path.join(wd, 'fatal.raw')
    fb = bytearray(base * 30); walk = chain_walk(bytes(fb)); o = walk[len(walk) * 2 // 3][0]; fb[o + 8:o + 10] = b'\x05\x00'
    open(fat, 'wb').write(fb)
    bins = [L.BIN] + ([L.HOOKBIN] if ok else [])
    BOUND = 20.0

    def finish(p, t0, what, detail, bound=None):
        bound = bound or BOUND
        try:
            out, err = p.communicate(timeout=bound)
        except subprocess.TimeoutExpired:
            p.kill(); p.communicate()
            ck.violation('hang', dict(detail, what=what + ': the process did not end within %.0f s (deadlock / hang)' % bound)); return None
        dt = time.time() - t0
        err = L.ANSI.sub('', err.decode('utf-8', 'replace'))
        if 'panicked' in err or p.returncode not in (0, 1, 7) + tuple(detail.get('also_ok', ())):
            ck.violation('panic', dict(detail, what=what + ': panic / abnormal exit status', exit=p.returncode, stderr=err[-500:]))
        ck.count('stop_' + what.split(':')[0])
        return out, err, dt

    nrep = 8 if tier == 'quick' else 120
    modes = [['check', 'all', 'its-stave', '-m'], ['check', 'all', 'its'], ['view', 'rdh'], ['view', 'its-readout-frames'], ['-f', '1', '-o', os.path.join(wd, 'out.raw')]]
    # ---- signals at random instants
    for rep in range(nrep):
        b = bins[rep % len(bins)]; args = modes[rep % len(modes)]
        sig = signal.SIGINT if rep % 2 else signal.SIGTERM
        env = dict(os.environ, FASTPASTA_VERIF_SCHED=str(rep + 1)) if b == L.HOOKBIN else None
        outp = os.path.join(wd, 'out.raw')
        if os.path.exists(outp): os.remove(outp)
        t0 = time.time()
        p = subprocess.Popen([b, big] + args + ['-E', '7'], stdout=subprocess.DEVNULL if args[0] != '-f' else subprocess.PIPE, stderr=subprocess.PIPE, env=env)
        time.sleep(R.choice([0, 0.001, 0.005, 0.02, 0.05, 0.1, 0.3]) * R.random())
        p.send_signal(sig)
        ck.case(('signal', rep))
        res = finish(p, t0, 'signal: ' + ('SIGINT' if rep % 2 else 'SIGTERM'), dict(args=args, binary='hook' if b == L.HOOKBIN else 'release', input='conforming stream repeated', also_ok=(-int(sig),)))
        if res and args[0] == '-f' and os.path.exists(outp):
            data = open(outp, 'rb').read()
            n = sum(64 + len(pl) for o, h, pl in chain_walk(data))
            if n != len(data) or any(h[12] != 1 for o, h, pl in chain_walk(data)):
                ck.violation('partial_output', {'what': 'the filtered output file written up to the stop does not consist of whole matching packets', 'size': len(data), 'framed': n})
    # ---- stdout closed after k bytes
    for rep in range(nrep):
        b = bins[rep % len(bins)]
        args = [['view', 'rdh'], ['view', 'its-readout-frames-data'], ['-f', '1'], ['-f', '2', '-o', 'stdout'], ['check', 'sanity', '-S', 'stdout', '-D', 'json'], ['check', 'all', 'its']][rep % 6]
        k = R.choice([0, 0, 1, 100, 5000, 70000, 1000000])
        env = dict(os.environ, FASTPASTA_VERIF_SCHED=str(rep + 1)) if b == L.HOOKBIN else None
        t0 = time.time()
        p = subprocess.Popen([b, big] + args, stdout=subprocess.PIPE, stderr=subprocess.PIPE, env=env)
        errbuf = []
        th = threading.Thread(target=lambda: errbuf.append(p.stderr.read()), daemon=True)   # drain stderr concurrently
        th.start()
        try:
            got, tend = 0, time.time() + BOUND       # read up to k bytes of stdout, never block for ever
            while got < k and time.time() < tend:
                r, _, _ = select.select([p.stdout], [], [], 0.5)
                if r:
                    chunk = os.read(p.stdout.fileno(), min(65536, k - got))
                    if not chunk: break
                    got += len(chunk)
            p.stdout.close()
        except Exception: pass
        ck.case(('closed_stdout', rep))
        try:
            rc = p.wait(timeout=BOUND)
        except subprocess.TimeoutExpired:
            p.kill(); p.wait()
            ck.violation('hang', {'what': 'stdout closed: the process did not end within %.0f s' % BOUND, 'args': args, 'after_bytes': k}); continue
        th.join(5)
        err = errbuf[0] if errbuf else b''
        errs = L.ANSI.sub('', err.decode('utf-8', 'replace'))
        ck.count('stop_closed_stdout')
        if 'panicked' in errs or rc not in (0, 1):
            ck.violation('panic', {'what': 'stdout closed after %d bytes: panic / abnormal exit' % k, 'args': args, 'exit': rc, 'stderr': errs[-500:]})
    # ---- stdout closed while the input keeps arriving (a producer that never ends, e.g. a live read-out piped through `| head`):
    # the end of the input cannot be what stops the tool here, only the broken pipe can
    chunk = base * 16
    solo_pk, _ = G.conforming_stream(R, nlinks=1, max_hbf=8, hits=False)        # one link only: every packet matches the filter
    solo = G.encode(solo_pk) * 64; solo_link = str(solo_pk[0].rdh['link'])
    for rep, args in enumerate([['view', 'rdh'], ['view', 'its-readout-frames'], ['view', 'its-readout-frames-data'], ['-f', solo_link], ['-f', solo_link, '-o', 'stdout']]):
        # filtered data is written when the writer's buffer (2^20 packets) is full: the broken pipe can only be noticed at the next
        # flush, i.e. after up to a million more matching packets have been read — bounded, but by the buffer size, not by a few
        # seconds; the release build is used there (the perturbed build sleeps at every hand-off) and the bound is generous
        is_filter = args[0] == '-f'
        b = L.BIN if is_filter else bins[rep % len(bins)]
        exit_bound = 120.0 if is_filter else 10.0
        env = dict(os.environ, FASTPASTA_VERIF_SCHED=str(rep + 1)) if b == L.HOOKBIN else None
        p = subprocess.Popen([b] + args, stdin=subprocess.PIPE, stdout=subprocess.PIPE, stderr=subprocess.PIPE, env=env)
        stop_feed = threading.Event()

        def feed(p=p, ev=stop_feed, blob=(solo if args[0] == '-f' else chunk)):
            try:
                while not ev.is_set():
                    p.stdin.write(blob)
            except (BrokenPipeError, OSError, ValueError):
                pass
            try: p.stdin.close()
            except Exception: pass
        ft = threading.Thread(target=feed, daemon=True); ft.start()
        errbuf = []
        th = threading.Thread(target=lambda p=p, e=errbuf: e.append(p.stderr.read()), daemon=True); th.start()
        k = 0 if is_filter else [200, 5000, 100000][rep % 3]     # filtered data: nothing is written before the first flush; close at once
        got, tend = 0, time.time() + BOUND
        try:
            while got < k and time.time() < tend:
                r, _, _ = select.select([p.stdout], [], [], 0.5)
                if r:
                    c = os.read(p.stdout.fileno(), min(65536, k - got))
                    if not c: break
                    got += len(c)
            p.stdout.close()
        except Exception: pass
        ck.case(('closed_stdout_endless_input', rep)); ck.count('stop_closed_stdout_endless_input')
        t0 = time.time()
        try:
            rc = p.wait(timeout=exit_bound)
        except subprocess.TimeoutExpired:
            rc = None
        ck.count('closed_stdout_endless_input_exit_s', round(time.time() - t0))
        stop_feed.set()
        if rc is None:
            p.kill(); p.wait()
            ck.violation('hang', {'what': f'stdout closed after {got} bytes while the input keeps arriving on stdin: the process was still running {int(exit_bound)} s later '
                                          '(the broken pipe is not noticed; only the end of the input would stop it)', 'args': args,
                                  'binary': 'hook' if b == L.HOOKBIN else 'release',
                                  'replay': 'while true; do cat conforming.raw; done | fastpasta ' + ' '.join(args) + ' | head -c %d' % k})
        else:
            errs = L.ANSI.sub('', (errbuf[0] if (th.join(5) or errbuf) else b'').decode('utf-8', 'replace'))
            if 'panicked' in errs or rc not in (0, 1):
                ck.violation('panic', {'what': 'stdout closed while the input keeps arriving: panic / abnormal exit', 'args': args, 'exit': rc, 'stderr': errs[-500:]})
        ft.join(5)
    # ---- error cap reached / fatal error in mid-stream (full queues behind it)
    for rep in range(nrep):
        b = bins[rep % len(bins)]
        env = dict(os.environ, FASTPASTA_VERIF_SCHED=str(rep + 1)) if b == L.HOOKBIN else None
        if rep % 2:
            args, f, what = ['check', 'all', 'its', '-e', str(R.choice([1, 2, 5, 50]))], errf, 'cap'
        else:
            args, f, what = [R.choice(['check', 'view']), ], fat, 'fatal'
            args = ['check', 'all', 'its-stave'] if args[0] == 'check' else ['view', 'rdh']
        t0 = time.time()
        p = subprocess.Popen([b, f] + args, stdout=subprocess.DEVNULL, stderr=subprocess.PIPE, env=env)
        ck.case((what, rep))
        finish(p, t0, what + ': early stop', dict(args=args))
    # ---- early stop while the bounded queues are full: a long input (more packets than the queues hold), the
    # consumer of stdout stalls so that analysis falls behind the reader, then the stop arrives
    npk = 40000 if tier == 'quick' else 200000
    hb = bytearray()
    for i in range(npk):
        f = dict(G.RDH_DEFAULT); f.update(link=i % 2 * 3, fee=0x1000 | (i % 2 * 3), orbit=10 + i // 4, page=(i // 2) % 2, stop=(i // 2) % 2, size=64, off=64, pkt=i & 0xFF)
        if i == npk // 2: f['res0'] = 1
        hb += G.rdh_bytes(f)
    huge = os.path.join(wd, 'huge.raw'); open(huge, 'wb').write(hb)
    ign = os.path.join(wd, 'ignored_out.raw')
    for rep in range(6 if tier == 'quick' else 24):
        b = bins[rep % len(bins)]
        env = dict(os.environ, FASTPASTA_VERIF_SCHED=str(rep + 1)) if b == L.HOOKBIN else None
        # every valid option combination has its own hand-off wiring in `process()`: half of the repetitions add a filter and an
        # output destination to the check / view command (legal; the output is documented as ignored then)
        opt = ['-f', '0', '-o', ign] if rep >= (3 if tier == 'quick' else 12) else []
        if rep % 3 == 2:
            args = ['check', 'all', '-e', '1'] + opt
            p = subprocess.Popen([b, huge] + args, stdout=subprocess.DEVNULL, stderr=subprocess.PIPE, env=env)
            ck.case(('full_queues_cap', rep))
            # the perturbed build sleeps (up to 0.5 ms) at every hand-off, i.e. several times per packet: its time bound has to
            # grow with the number of packets before the fault (measured: 23 s for 100 000 packets), the release build's does not
            finish(p, time.time(), 'cap: error cap reached in mid-stream of a long input', dict(args=args, packets=npk),
                   bound=BOUND + (npk * 0.0006 if b == L.HOOKBIN else 0))
            continue
        p = subprocess.Popen([b, huge, 'view', 'rdh'] + opt, stdout=subprocess.PIPE, stderr=subprocess.PIPE, env=env)
        errbuf = []
        th = threading.Thread(target=lambda: errbuf.append(p.stderr.read()), daemon=True); th.start()
        time.sleep(1.0)                                  # stdout is not read: the view blocks, the queues fill up
        p.send_signal(signal.SIGINT if rep % 2 else signal.SIGTERM)
        ck.case(('full_queues_signal', rep))
        tend = time.time() + BOUND
        try:
            while time.time() < tend:
                r, _, _ = select.select([p.stdout], [], [], 0.5)
                if r and not os.read(p.stdout.fileno(), 1 << 16): break
            rc = p.wait(timeout=max(0.1, tend - time.time()))
        except subprocess.TimeoutExpired:
            rc = None
        if rc is None and p.poll() is None:
            p.kill(); p.wait()
            ck.violation('hang', {'what': 'signal while the queues are full (stalled stdout consumer): the process did not end within %.0f s (deadlock)' % BOUND,
                                  'args': ['view', 'rdh'] + opt, 'packets': npk, 'binary': 'hook' if b == L.HOOKBIN else 'release'})
            continue
        th.join(5)
        errs = L.ANSI.sub('', (errbuf[0] if errbuf else b'').decode('utf-8', 'replace'))
        ck.count('stop_full_queues')
        if 'panicked' in errs or p.returncode not in (0, 1, -2, -15):
            ck.violation('panic', {'what': 'signal with full queues: panic / abnormal exit', 'exit': p.returncode, 'stderr': errs[-400:]})
    shutil.rmtree(wd, ignore_errors=True)
    ck.sample(dict(stops=['SIGINT/SIGTERM at random instants', 'stdout closed after k bytes', 'error cap', 'fatal framing error in mid-stream'], binaries=len(bins)))


CHECKS = {
    'C17': dict(modules=['FastPasta.Props.C17'], run=run_c17, needs_harness=False,
                theorems=['FastPasta.C17.no_deadlock', 'FastPasta.C17.step_decreases', 'FastPasta.C17.env_measure', 'FastPasta.C17.terminates_within',
                          'FastPasta.C17.orderly_stop', 'FastPasta.C17.step_inv', 'FastPasta.C17.env_inv', 'FastPasta.C17.exec_inv', 'FastPasta.C17.writer_whole_packets',
                          'FastPasta.C17.leaked_receiver_deadlocks']),
    'C04': dict(modules=['FastPasta.Props.C04'], run=run_c04, needs_harness=False, corr='panic_model',
                theorems=['FastPasta.C04.no_panic_nonstave', 'FastPasta.C04.no_panic_stave_valid_layers', 'FastPasta.C04.runValidators_safe', 'FastPasta.C04.no_panic_all_validators_nonstave', 'FastPasta.C04.checkWord_safe', 'FastPasta.C04.checkWords_safe',
                          'FastPasta.C04.payloadChecks_safe', 'FastPasta.C04.linkRun_safe', 'FastPasta.C04.processFrame_err', 'FastPasta.C04.preData_err',
                          'FastPasta.C04.scan_steps_bound', 'FastPasta.C04.scanLoop_bound', 'FastPasta.C04.loadCdp_consumes', 'FastPasta.C04.filterLoop_consumes',
                          'FastPasta.C04.alpide_zero_is_data_long', 'FastPasta.C04.alpide_ape_range']),
    'C19': dict(modules=['FastPasta.Props.C19'], run=run_c19, needs_harness=False, corr='view_model',
                theorems=['FastPasta.C19.rdh_view_rows', 'FastPasta.C19.rdh_view_rows_explicit', 'FastPasta.C19.word_rows_spec', 'FastPasta.C19.word_rows_complete',
                          'FastPasta.C19.byte_fatal_iff', 'FastPasta.C19.byte_error_iff', 'FastPasta.C19.lane_status_fatal_iff', 'FastPasta.C19.viewKind_eq_kindOfId',
                          'FastPasta.C19.types_agree_on_conforming',
                          # tie by translation: the views' byte predicates are the source's (Spec/WordsSrcGen.lean)
                          'FastPasta.C19.lane_status_src', 'FastPasta.C19.word_attr_bits_src']),
    'C05': dict(modules=['FastPasta.Props.C05'], run=run_c05, needs_harness=True, corr='collector',
                theorems=['FastPasta.C05.schedule_independent', 'FastPasta.C05.display_and_exit_independent', 'FastPasta.C05.field_run', 'FastPasta.C05.field_indep',
                          'FastPasta.C05.counter_indep', 'FastPasta.C05.alpide_indep', 'FastPasta.C05.errors_run', 'FastPasta.sortStable_congr', 'FastPasta.sorted_unique',
                          'FastPasta.sortStable_sorted', 'FastPasta.sortStable_filter', 'FastPasta.interleave_filter', 'FastPasta.interleave_sum', 'FastPasta.interleave_any']),
    'C15': dict(modules=['FastPasta.Props.C15'], run=run_c15, needs_harness=False, corr='statscmp_model',
                theorems=['FastPasta.C15.validate_complete', 'FastPasta.C15.validate_refl', 'FastPasta.C15.drift_detected', 'FastPasta.C15.drift_sets_exit',
                          'FastPasta.C15.mismCounters_nil', 'FastPasta.C15.compared_fields_src']),
    'C16': dict(modules=['FastPasta.Props.C16'], run=run_c16, needs_harness=False, corr='display_model',
                theorems=['FastPasta.C16.exit_contract', 'FastPasta.C16.exit_in_range', 'FastPasta.C16.run_exit', 'FastPasta.C16.code_filter_exact',
                          'FastPasta.C16.no_bracket_never_matches', 'FastPasta.C16.total_eq_shown', 'FastPasta.C16.mute_only_display',
                          'FastPasta.C16.muted_shows_nothing', 'FastPasta.C16.cap_bound', 'FastPasta.C16.filter_shows_only_listed']),
}
