CHECKS = {}
