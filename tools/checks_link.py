"""Link-level properties: C01 (conforming accepted), C02 (fault catalogue), C06 (link isolation),
C07 (offsets / quoted bytes), C13 (ALPIDE frames), C20 (custom checks)."""
import json
import os, re, struct, json, shutil
import fplib as L
import fpgen as G
from checks_unit import corr, report_dis
from checks_scan import chain_walk, hdr_fields, flt_args, flt_token

MODES = [('sanity', None), ('sanity', 'its'), ('all', None), ('all', 'its'), ('all', 'stave')]


def mode_args(m):
    cmd, tgt = m
    return ['check', cmd] + ([] if tgt is None else ['its' if tgt == 'its' else 'its-stave'])


def mode_tok(m):
    cmd, tgt = m
    return f'cmd={cmd} target={tgt or "none"}'


def model_run(reqs):
    out = []
    for m in L.run_driver(reqs):
        if m.startswith('PANIC') or m.startswith('INITERR') or m.startswith('INVALID') or m == 'bad-op':
            out.append(dict(raw=m, exit=None, errors=None)); continue
        head, rest = m.split(' errors=', 1)
        kv = dict(t.split('=', 1) for t in head.split(' ') if '=' in t)
        errs = sorted(tuple(t.split(':')[:2]) for t in rest.split(' | ')[0].split(' ') if t)
        out.append(dict(raw=m, exit=int(kv['exit']), errors=errs, kv=kv,
                        shown=[t for t in rest.split('| shown=')[1].split(' | ')[0].split(' ') if t] if '| shown=' in rest else []))
    return out


def impl_errs(r):
    return sorted((str(e[0]), e[1]) for e in r.errors)


def compare_model(ck, name, jobs, res, reqs):
    """exact (offset, code) multiset + exit status, model vs implementation"""
    model = model_run(reqs)
    dis = []
    for j, r, q, m in zip(jobs, res, reqs, model):
        if m['errors'] is None:
            if m['raw'].startswith('PANIC') and (r.exit not in (0, 1, 7)): continue
            if m['raw'].startswith('INITERR') and r.exit == 1: continue
            dis.append((0, q[:300], f'exit={r.exit}', m['raw'][:100])); continue
        if r.stats is None:
            dis.append((0, q[:300], f'no stats; exit={r.exit} {r.stderr[-200:]}', m['raw'][:100])); continue
        if r.stats['error_stats']['fatal_error']: continue   # schedule dependent which errors precede the fatal one
        if impl_errs(r) != m['errors'] or r.exit != m['exit']:
            a, b = impl_errs(r), m['errors']
            dis.append((0, q[:300], f'exit={r.exit} only_impl={[e for e in a if e not in b][:6]}', f'exit={m["exit"]} only_model={[e for e in b if e not in a][:6]}'))
    ck.corr[name] = dict(cases=len(reqs), disagreements=len(dis))
    return dis


# =============================================================== C01
def run_c01(ck, ctx):
    R, tier = ctx['R'], ctx['tier']
    n = 14 if tier == 'quick' else 400
    jobs = []
    for i in range(n):
        if i == 2:       # one long link: several hundred packets on one link, HBFs of many different page counts
            pk, meta = G.conforming_stream(R, nlinks=R.randint(1, 2), min_hbf=90, max_hbf=130, hits=False)
        elif i % 5 == 4:   # packet counts around the batch size
            pk, meta = G.conforming_stream(R, nlinks=R.randint(1, 3), max_hbf=R.choice([12, 25]), hits=False)
            tgt = R.choice([99, 100, 101, 200])
            if len(pk) >= tgt:
                # cut at an HBF boundary at or after tgt is not conforming-preserving in general; keep whole stream
                pass
        elif i % 5 == 1:   # a page that fills a complete 8 KiB CRU page exactly (payload 8128 bytes), or one word less / more
            df = (i // 5) % 2 * 2
            pk, meta = G.conforming_stream(R, nlinks=R.randint(1, 2), df=df, max_hbf=3)
            full = 508 if df == 0 else 812
            grown = G.fill_page(pk, R.choice([full, full, full - 1, full + 1]))
            meta = dict(meta, grown_page=grown)
        else:
            pk, meta = G.conforming_stream(R)
        data = G.encode(pk)
        data_stave = data
        if i % 5 == 3:
            # stave mode keys the validators by FEE ID: the same conforming staves read out through ONE source (same CRU, end point and
            # link id), their packets interleaved, are still conforming there (seeded C01-m5 / C06-m4: a dispatcher shortcut keyed on
            # the link id or on the read-out source hands a packet to the previous packet's validator)
            pk2, meta2 = G.conforming_stream(R, nlinks=R.randint(2, 4), max_hbf=3, mode=R.choice(['rr', 'rand']))
            for p in pk2: p.rdh.update(link=3, cru=23, dw=0)
            pk, meta = pk2, dict(meta2, one_readout_source=True)
            data_stave = G.encode(pk2)
            ck.count('c01_stave_streams_with_one_readout_source')
        for m in MODES:
            if meta.get('one_readout_source') and m[1] != 'stave': continue
            for opt in ([], ['-m'], ['-E', '7']):
                for via in ('file', 'pipe'):
                    if tier == 'quick' and (i * 7 + len(opt) + (via == 'pipe')) % 3 and (opt or via == 'pipe'): continue
                    jobs.append((i, meta, m, opt, via, data_stave if m[1] == 'stave' else data))

    def job(j):
        i, meta, m, opt, via, data = j
        return L.run_cli(mode_args(m) + opt, data, via=via)
    res = L.pmap(job, jobs)
    reqs, cj, cr = [], [], []
    for j, r in zip(jobs, res):
        i, meta, m, opt, via, data = j
        ck.case((i, m, tuple(opt), via))
        ck.count(f'mode_{m[0]}_{m[1]}'); ck.count('layout_' + meta['mode']); ck.count(f'df{meta["df"]}_v{meta["ver"]}'); ck.count('npkts', meta['npkts'])
        bad = []
        if r.exit != 0: bad.append(f'exit={r.exit}')
        if r.stats is None or r.stats['error_stats']['total_errors'] != 0 or r.stats['error_stats']['reported_errors'] or r.stats['error_stats']['fatal_error']:
            bad.append('errors in statistics')
        if 'ERROR' in L.ANSI.sub('', r.stderr): bad.append('ERROR on stderr')
        if bad:
            ck.violation('accept', {'what': 'conforming stream is not accepted cleanly', 'problems': bad, 'args': mode_args(m) + opt, 'via': via, 'meta': meta,
                                    'errors': r.errors[:8], 'stderr': L.ANSI.sub('', r.stderr)[-600:], 'input_hex': data.hex()})
        if via == 'file' and not opt:
            reqs.append(f'run {mode_tok(m)} data={G.hexs(data)}'); cj.append(j); cr.append(r)
    dis = compare_model(ck, 'run_conforming', cj, cr, reqs)
    ck.sample(dict(meta=jobs[0][1], args=mode_args(jobs[0][2]), input_bytes=len(jobs[0][5])))
    report_dis(ck, 'run_conforming', dis)
    # non-vacuity of `conforming_its_accepted` at scale: every link of every generated stream must be inside
    # the protocol grammar (Spec.Protocol) the theorem quantifies over. A stream outside the grammar is not a
    # violation of the property (the code is right to accept it); it is a stream the theorem does not cover,
    # and is reported in the evidence.
    creq, seen = [], set()
    for j in jobs:
        i, meta, m, opt, via, data = j
        if i in seen: continue
        seen.add(i)
        walk = chain_walk(data)
        links = {}
        for o, h, p in walk: links.setdefault(h[12], []).append((o, h, p))
        for l, pks in links.items():
            toks = ' '.join(f'{o}:{G.hexs(h)}:{G.hexs(p)}' for o, h, p in pks)
            for running in (0, 1):
                creq.append((i, l, running, f'conf running={running} -- {toks}'))
    if creq:
        out = L.run_driver([c[3] for c in creq])
        rej = []
        for c, o in zip(creq, out):
            ck.count('grammar_' + ('conforms' if o.startswith('CONFORMS') else 'outside'))
            if not o.startswith('CONFORMS'): rej.append(dict(stream=c[0], link=c[1], running=c[2], reply=o))
        if rej:
            ck.notes.append('generated links outside the grammar of conforming_its_accepted (not covered by that theorem): ' + json.dumps(rej[:6]))


# =============================================================== C02: fault catalogue
FAM = {'rdh': ('E10',), 'run': ('E11',), 'ihw': ('E30',), 'tdh': ('E40',), 'tdt': ('E50',), 'ddw': ('E60',), 'data': ('E70',)}


def word_positions(pk, pred):
    """(packet index, word index) of words satisfying pred"""
    return [(i, k) for i, p in enumerate(pk) for k, w in enumerate(p.words) if pred(p, k, w)]


def woff(pk, i, k):
    return G.offsets(pk)[i] + 64 + k * pk[i].slot()


def set_word(pk, i, k, fn):
    w = bytearray(pk[i].words[k]); fn(w); pk[i].words[k] = bytes(w)


def faults(R):
    """catalogue: name -> function(pk (already cloned), R) -> (offset, set of acceptable codes, its_only, running_only) or None"""
    F = {}

    def rdh_fault(field, val_fn, codes=('E10',), first_ok=False):
        def f(pk, R):
            cand = [i for i in range(len(pk)) if i > 0 or first_ok]
            if not cand: return None
            i = R.choice(cand)
            pk[i].rdh[field] = val_fn(pk[i].rdh[field]) if callable(val_fn) else val_fn
            return (G.offsets(pk)[i], set(codes), False, False)
        return f
    F['rdh_hsize'] = rdh_fault('hsize', 0x41)
    F['rdh_fee_reserved'] = rdh_fault('fee', lambda v: v | 0x0080)
    F['rdh_fee_stave48'] = rdh_fault('fee', lambda v: (v & ~0x3F) | 48)
    F['rdh_prio'] = rdh_fault('prio', 1)
    F['rdh_res0'] = rdh_fault('res0', 0x100)
    def ver_fault(pk, R):
        # the expected header id is learnt per link from that link's first header: fault a later one
        cand = [i for i in range(1, len(pk)) if any(pk[j].rdh['link'] == pk[i].rdh['link'] and pk[j].rdh['fee'] == pk[i].rdh['fee'] for j in range(i))]
        if not cand: return None
        i = R.choice(cand)
        pk[i].rdh['ver'] = 13 - pk[i].rdh['ver']
        return (G.offsets(pk)[i], {'E10'}, False, False)
    F['rdh_version'] = ver_fault
    F['rdh_dw'] = rdh_fault('dw', 2, first_ok=True)
    F['rdh_df3'] = rdh_fault('df', 3, first_ok=True)
    F['rdh_bc_dec'] = rdh_fault('bc', 0xdec, first_ok=True)
    F['rdh_res1'] = rdh_fault('res1', 1, first_ok=True)
    F['rdh_trig_spare'] = rdh_fault('trig', lambda v: v | (1 << 20), first_ok=True)
    F['rdh_res2'] = rdh_fault('res2', 1, first_ok=True)
    F['rdh_det_reserved'] = rdh_fault('det', lambda v: v | 0x1000, first_ok=True)
    F['rdh_res3'] = rdh_fault('res3', 1, first_ok=True)

    def sysid(pk, R):
        i = R.randrange(1, len(pk)) if len(pk) > 1 else None
        if i is None: return None
        pk[i].rdh['sysid'] = 33
        return (G.offsets(pk)[i], {'E10'}, True, False)
    F['rdh_sysid_its'] = sysid

    def run_fault(mut):
        def f(pk, R):
            cand = [i for i in range(2, len(pk)) if pk[i].rdh['page'] > 0 and pk[i].rdh['link'] == pk[i - 1].rdh['link'] or False]
            # need the previous packet *of the same link*: use contiguous single-link tail
            cand = [i for i in range(1, len(pk)) if pk[i].rdh['page'] > 0]
            if not cand: return None
            i = R.choice(cand)
            mut(pk[i].rdh)
            return (G.offsets(pk)[i], {'E11'}, False, True)
        return f
    F['run_page'] = run_fault(lambda r: r.update(page=r['page'] + 3))
    F['run_orbit_changed'] = run_fault(lambda r: r.update(orbit=(r['orbit'] + 7) & 0xFFFFFFFF))
    F['run_trigger_changed'] = run_fault(lambda r: r.update(trig=r['trig'] ^ 0x2))
    F['run_stop2'] = run_fault(lambda r: r.update(stop=2))

    def wfault(pred, mut, codes, running=False):
        def f(pk, R):
            pos = word_positions(pk, pred)
            if not pos: return None
            i, k = R.choice(pos)
            set_word(pk, i, k, mut)
            return (woff(pk, i, k), set(codes), True, running)
        return f
    isid = lambda idv: (lambda p, k, w: w[9] == idv)
    F['ihw_reserved'] = wfault(isid(0xE0), lambda w: w.__setitem__(5, 0x20), {'E30'})
    F['ihw_id'] = wfault(lambda p, k, w: w[9] == 0xE0 and k == 0, lambda w: w.__setitem__(9, 0xE1), {'E30', 'E990', 'E991', 'E992'})
    F['tdh_reserved'] = wfault(isid(0xE8), lambda w: w.__setitem__(8, 1), {'E40'})
    F['tdh_reserved_bit15'] = wfault(isid(0xE8), lambda w: w.__setitem__(1, w[1] | 0x80), {'E40'})
    F['tdh_no_trigger'] = wfault(isid(0xE8), lambda w: (w.__setitem__(0, 0), w.__setitem__(1, w[1] & 0xE0)), {'E40'})
    F['tdh_id'] = wfault(lambda p, k, w: w[9] == 0xE8 and k == 1, lambda w: w.__setitem__(9, 0xE9), {'E40', 'E990', 'E991', 'E992'})
    F['tdt_reserved'] = wfault(isid(0xF0), lambda w: w.__setitem__(8, w[8] | 0x04), {'E50'})
    F['tdt_reserved_hi'] = wfault(isid(0xF0), lambda w: w.__setitem__(7, w[7] | 0x01), {'E50'})
    F['ddw0_reserved'] = wfault(isid(0xE4), lambda w: w.__setitem__(7, 1), {'E60'})
    F['ddw0_index'] = wfault(isid(0xE4), lambda w: w.__setitem__(8, 0x10), {'E60'})
    isdata = lambda p, k, w: (w[9] >> 5) in (1, 2)
    F['data_id_invalid'] = wfault(isdata, lambda w: w.__setitem__(9, 0x5F if w[9] >> 5 == 2 else 0x2F), {'E70'})
    F['data_connector7'] = wfault(lambda p, k, w: w[9] >> 5 == 2, lambda w: w.__setitem__(9, w[9] | 7), {'E73', 'E70'}, running=True)
    # state dependent
    F['tdh_orbit_mismatch'] = wfault(lambda p, k, w: w[9] == 0xE8 and k == 1 and not (w[1] & 0x40), lambda w: w.__setitem__(4, w[4] ^ 1), {'E444'}, running=True)
    F['tdh_cont_after_ihw'] = wfault(lambda p, k, w: w[9] == 0xE8 and k == 1 and not (w[1] & 0x40), lambda w: w.__setitem__(1, w[1] | 0x40), {'E42'}, running=True)
    F['tdh_cont_missing'] = wfault(lambda p, k, w: w[9] == 0xE8 and k == 1 and (w[1] & 0x40), lambda w: w.__setitem__(1, w[1] & ~0x40), {'E41'}, running=True)
    F['tdh_cont_bc'] = wfault(lambda p, k, w: w[9] == 0xE8 and k == 1 and (w[1] & 0x40), lambda w: w.__setitem__(2, w[2] ^ 1), {'E441'}, running=True)
    F['tdh_cont_orbit'] = wfault(lambda p, k, w: w[9] == 0xE8 and k == 1 and (w[1] & 0x40), lambda w: w.__setitem__(5, w[5] ^ 1), {'E442'}, running=True)
    F['tdh_trigger_type_mismatch'] = wfault(lambda p, k, w: w[9] == 0xE8 and k == 1 and p.rdh['page'] == 0 and ((w[1] & 0x10) or (p.rdh['trig'] & 0x10)),
                                            lambda w: w.__setitem__(0, w[0] ^ 0x4), {'E44'}, running=True)
    F['tdh_bc_mismatch'] = wfault(lambda p, k, w: w[9] == 0xE8 and k == 1 and p.rdh['page'] == 0 and ((w[1] & 0x10) or (p.rdh['trig'] & 0x10)),
                                  lambda w: w.__setitem__(2, w[2] ^ 1), {'E445'}, running=True)

    def ddw0_stop(pk, R):
        pos = word_positions(pk, isid(0xE4))
        if not pos: return None
        i, k = R.choice(pos)
        pk[i].rdh['stop'] = 0
        return (woff(pk, i, k), {'E110'}, True, True)
    F['ddw0_stop_not_1'] = ddw0_stop

    def ihw_stop(pk, R):
        pos = [(i, k) for i, k in word_positions(pk, isid(0xE0)) if k == 0 and pk[i].rdh['stop'] == 0 and not (len(pk[i].words) > 1 and pk[i].words[1][1] & 0x40)]
        if not pos: return None
        i, k = R.choice(pos)
        pk[i].rdh['stop'] = 1
        return (woff(pk, i, k), {'E12'}, True, True)
    F['ihw_with_stop'] = ihw_stop

    def lane_inactive(pk, R):
        pos = word_positions(pk, isdata)
        if not pos: return None
        i, k = R.choice(pos)
        idb = pk[i].words[k][9]
        lane = (idb & 31) if idb >> 5 == 1 else G.ob_lane(idb)
        # governing IHW: the last IHW at or before (i,k) on the same link
        link = pk[i].rdh['link']
        for ii in range(i, -1, -1):
            if pk[ii].rdh['link'] != link: continue
            ks = [kk for kk, w in enumerate(pk[ii].words) if w[9] == 0xE0 and (ii < i or kk < k)]
            if ks:
                kk = ks[-1]
                lanes = int.from_bytes(pk[ii].words[kk][:4], 'little') & ~(1 << lane)
                pk[ii].words[kk] = struct.pack('<I', lanes) + pk[ii].words[kk][4:]
                return (woff(pk, i, k), {'E71', 'E72'}, True, True)
        return None
    F['lane_not_active'] = lane_inactive

    def lane_inactive_repeat(pk, R):
        """the first data word under a new IHW that deactivates its lane carries the same ID as the last
        (valid) data word under the previous IHW of the link — a per-ID shortcut must not hide it"""
        cand = []
        for i, p in enumerate(pk):
            if not p.words or p.words[0][9] != 0xE0: continue
            prev = [j for j in range(i) if pk[j].rdh['link'] == p.rdh['link'] and any(isdata(pk[j], k, w) for k, w in enumerate(pk[j].words))]
            dk = [k for k, w in enumerate(p.words) if isdata(p, k, w)]
            if prev and dk: cand.append((i, prev[-1], dk))
        if not cand: return None
        i, j, dk = R.choice(cand)
        last_id = [w[9] for k, w in enumerate(pk[j].words) if isdata(pk[j], k, w)][-1]
        same = [k for k in dk if pk[i].words[k][9] == last_id]
        if not same: return None
        k0 = dk[0]
        pk[i].words[k0], pk[i].words[same[0]] = pk[i].words[same[0]], pk[i].words[k0]
        lane = (last_id & 31) if last_id >> 5 == 1 else G.ob_lane(last_id)
        lanes = int.from_bytes(pk[i].words[0][:4], 'little') & ~(1 << lane)
        pk[i].words[0] = struct.pack('<I', lanes) + pk[i].words[0][4:]
        return (woff(pk, i, k0), {'E71', 'E72'}, True, True)
    F['lane_not_active_repeat'] = lane_inactive_repeat

    def bc_decreasing(pk, R):
        # a TDH following a TDT with packet_done in the same page, with trigger_bc > 0
        pos = [(i, k) for i, p in enumerate(pk) for k, w in enumerate(p.words)
               if w[9] == 0xE8 and k >= 2 and p.words[k - 1][9] == 0xF0 and (p.words[k - 1][8] & 1)]
        if not pos: return None
        i, k = R.choice(pos)
        # raise the previous TDH's bc above this one's: simpler to lower this one below the previous (previous TDH of this link)
        prev = None
        for kk in range(k - 1, -1, -1):
            if pk[i].words[kk][9] == 0xE8: prev = pk[i].words[kk]; break
        if prev is None: return None
        pbc = (prev[2] | prev[3] << 8) & 0xFFF
        if pbc == 0: return None
        set_word(pk, i, k, lambda w: (w.__setitem__(2, (pbc - 1) & 0xFF), w.__setitem__(3, (w[3] & 0xF0) | ((pbc - 1) >> 8))))
        return (woff(pk, i, k), {'E440'}, True, True)
    F['tdh_bc_decreasing'] = bc_decreasing

    def overpad(pk, R):
        cand = [i for i, p in enumerate(pk) if p.words and p.raw_payload is None]
        if not cand: return None
        i = R.choice(cand)
        if pk[i].fmt == 2:
            pk[i].pad = 16 + ((-10 * len(pk[i].words)) % 16) % 16
            pk[i].pad = max(16, pk[i].pad)
        else:
            # the limit is a property of every payload, whatever its data format: 16-byte slots followed by > 15 bytes of 0xFF
            pk[i].raw_payload = pk[i].payload() + b'\xff' * R.choice([16, 24, 32])
        return (G.offsets(pk)[i], {'PAYLOAD'}, True, False)
    F['padding_over_15'] = overpad
    return F


def run_c02(ck, ctx):
    R, tier = ctx['R'], ctx['tier']
    F = faults(R)
    nstreams = 5 if tier == 'quick' else 60
    jobs = []
    for si in range(nstreams):
        base, meta = G.conforming_stream(R, nlinks=R.randint(1, 3), max_hbf=3)
        for name, fn in F.items():
            for rep in range(1 if tier == 'quick' else 3):
                pk = [p.clone() for p in base]
                got = fn(pk, R)
                if got is None: ck.count('not_applicable_' + name); continue
                off, codes, its_only, running_only = got
                data = G.encode(pk)
                for m in MODES:
                    active = (not its_only or m[1] is not None) and (not running_only or m[0] == 'all')
                    jobs.append((si, name, m, off, codes, active, running_only, data, meta))
    # a third of the runs also carry a custom-checks file whose expectations are all met (the stream's own RDH
    # version): configuring an unrelated check must not switch a documented rule off
    cver = {}
    wd = os.path.join(L.CACHE, 'tmp', f'c02_{os.getpid()}'); os.makedirs(wd, exist_ok=True)
    for ji, j in enumerate(jobs):
        if ji % 3 == 0 and j[8]['ver'] != 'mixed' and j[1] != 'rdh_version':
            cver[ji] = j[8]['ver']
            open(os.path.join(wd, f'v{j[8]["ver"]}.toml'), 'w').write(f'rdh_version = {j[8]["ver"]}\n')

    def job(ji):
        si, name, m, off, codes, active, running_only, data, meta = jobs[ji]
        extra = ['-c', os.path.join(wd, f'v{cver[ji]}.toml')] if ji in cver else []
        return L.run_cli(mode_args(m) + ['-E', '7'] + extra, data)
    res = L.pmap(job, list(range(len(jobs))))
    shutil.rmtree(wd, ignore_errors=True)
    reqs = []
    RUNNING_CODES = {'E11', 'E12', 'E110', 'E111', 'E41', 'E42', 'E44', 'E440', 'E441', 'E442', 'E443', 'E444', 'E445', 'E45', 'E71', 'E72', 'E73', 'E81'}
    for ji, (j, r) in enumerate(zip(jobs, res)):
        si, name, m, off, codes, active, running_only, data, meta = j
        ck.case((si, name, m))
        ck.count('fault_' + name)
        if ji in cver: ck.count('with_custom_rdh_version')
        reqs.append(f'run {mode_tok(m)} E=7' + (f' ver={cver[ji]}' if ji in cver else '') + f' data={G.hexs(data)}')
        if r.exit not in (0, 7) or r.stats is None:
            key = 'stave-layer-or-alpide-panic' if m[1] == 'stave' and r.exit not in (0, 1, 7) else None
            ck.violation('abnormal', {'what': 'faulted stream: abnormal termination', 'fault': name, 'args': mode_args(m), 'exit': r.exit,
                                      'stderr': L.ANSI.sub('', r.stderr)[-500:], 'input_hex': data.hex()}, key=key)
            continue
        errs = r.errors
        if active:
            hit = [e for e in errs if e[0] == off and e[1] in codes]
            if not hit or r.exit != 7:
                ck.violation('undetected', {'what': 'documented violation not reported with its code family at the offending offset (or exit status not the any-errors code)',
                                            'fault': name, 'args': mode_args(m) + ['-E', '7'] + (['-c', '<file with: rdh_version = %s>' % cver[ji]] if ji in cver else []), 'expected_offset': off, 'expected_codes': sorted(codes),
                                            'errors_at_offset': [e for e in errs if e[0] == off][:6], 'all_errors': errs[:10], 'exit': r.exit, 'meta': meta, 'input_hex': data.hex()})
        if m[0] == 'sanity':
            bad = [e for e in errs if e[1] in RUNNING_CODES and not (e[1] in ('E72', 'E73') and m[1] == 'stave')]
            if bad:
                ck.violation('running_in_sanity', {'what': '`check sanity` reports a purely stateful (running) violation', 'fault': name, 'args': mode_args(m),
                                                   'errors': bad[:6], 'input_hex': data.hex()})
    dis = compare_model(ck, 'run_faulted', jobs, res, reqs)
    ck.sample(dict(fault=jobs[3][1], args=mode_args(jobs[3][2]), expected_offset=jobs[3][3], expected_codes=sorted(jobs[3][4])))
    report_dis(ck, 'run_faulted', dis)
    # first-packet RDH0 fault (known finding F8)
    base, meta = G.conforming_stream(R, nlinks=1, max_hbf=1)
    pk = [p.clone() for p in base]; pk[0].rdh['res0'] = 1
    data = G.encode(pk)
    r = L.run_cli(['check', 'all', 'its', '-E', '7'], data)
    ck.case(('first_rdh0',))
    if not any(e[0] == 0 and e[1] == 'E10' for e in r.errors):
        ck.violation('first_rdh0', {'what': 'RDH0 fault in the first packet of the input is not reported as [E10] at offset 0', 'exit': r.exit,
                                    'stderr': L.ANSI.sub('', r.stderr)[-300:], 'input_hex': data.hex(), 'args': 'check all its -E 7'}, key='first-rdh0-gate')


# =============================================================== C06
def link_groups(data, key):
    """offsets of packets per link (or FEE) and per-link extracted byte strings with offset maps"""
    groups = {}
    for o, h, p in chain_walk(data):
        k = h[12] if key == 'link' else (h[2] | h[3] << 8)
        g = groups.setdefault(k, dict(offs=[], data=b'', map={}))
        g['map'][o] = len(g['data']); g['offs'].append((o, 64 + len(p))); g['data'] += h + p
    return groups


def owner(groups, off):
    for k, g in groups.items():
        for o, n in g['offs']:
            if o <= off < o + n: return k, o
    return None, None


def run_c06(ck, ctx):
    R, tier = ctx['R'], ctx['tier']
    n = 6 if tier == 'quick' else 80
    F = faults(R)
    fnames = [k for k in F if not k.startswith('run_') and k not in ('rdh_version',)]
    for si in range(n):
        base, meta = G.conforming_stream(R, nlinks=R.randint(2, 5), max_hbf=3, mode=R.choice(['rr', 'rand']) if si % 4 == 0 else R.choice(['contig', 'rr', 'rand']))
        pk = [p.clone() for p in base]
        # corrupt one or two links
        nf = R.choice([0, 1, 2, 3])
        for _ in range(nf):
            F[R.choice(fnames)](pk, R)
        if pk[0].encode()[:8] != base[0].encode()[:8]: pk[0].rdh.update({k: base[0].rdh[k] for k in ('hsize', 'fee', 'prio', 'res0', 'ver')})
        data_links = G.encode(pk)
        # stave mode keys the validators by FEE ID: there several FEE IDs may share one GBT link id (same link number on
        # both CRU end points). Every second stream is given shared link ids for the stave-mode comparison.
        pk_shared = [p.clone() for p in pk]
        if si % 2 == 0:
            for p in pk_shared: p.rdh['link'] = p.rdh['link'] % 2
            ck.count('c06_stave_streams_with_shared_link_ids')
            if si % 4 == 0:
                # ... and the same read-out source altogether (one CRU, one end point, one link id): only the FEE ID tells the
                # staves apart, packets of different staves follow each other directly (seeded C06-m4: a "same source as the
                # previous packet" shortcut in the dispatcher)
                for p in pk_shared: p.rdh.update(link=3, cru=23, dw=0)
                ck.count('c06_stave_streams_with_one_readout_source')
        data_shared = G.encode(pk_shared)
        for m in [('all', 'its'), ('all', 'stave'), ('sanity', 'its'), ('all', None)]:
            key = 'fee' if m[1] == 'stave' else 'link'
            data = data_shared if m[1] == 'stave' else data_links
            groups = link_groups(data, key)
            full = L.run_cli(mode_args(m), data)
            ck.case((si, m)); ck.count(f'links_{len(groups)}'); ck.count('faults', nf)
            if full.stats is None or full.exit not in (0,):
                ck.violation('abnormal', {'what': 'multi-link run ended abnormally', 'exit': full.exit, 'stderr': L.ANSI.sub('', full.stderr)[-400:], 'args': mode_args(m),
                                          'input_hex': data.hex()}, key='stave-layer-or-alpide-panic' if m[1] == 'stave' else None)
                continue
            per = {k: [] for k in groups}
            for e in full.errors:
                k, o = owner(groups, e[0])
                per.setdefault(k, []).append(e)
            for k, g in groups.items():
                want = sorted((g['map'][owner(groups, e[0])[1]] + (e[0] - owner(groups, e[0])[1]), e[1], e[2]) for e in per.get(k, []))
                # (a) physically extracted single-link file
                alone = L.run_cli(mode_args(m), g['data'])
                if alone.stats is None or alone.exit != 0:
                    gate = 'Initial RDH0 deserialization failed sanity check' in alone.stderr
                    ck.violation('extract', {'what': 'extracted single-link file is not processed', 'link': k, 'stderr': L.ANSI.sub('', alone.stderr)[-300:],
                                             'input_hex': g['data'].hex()}, key='first-rdh0-gate' if gate else None)
                    continue
                got = sorted(alone.errors)
                if got != want:
                    ck.violation('isolation', {'what': 'errors of a link differ between the interleaved run and its extracted single-link file',
                                               'link': k, 'key': key, 'args': mode_args(m), 'only_full(relocated)': [e for e in want if e not in got][:5],
                                               'only_alone': [e for e in got if e not in want][:5], 'input_hex': data.hex()})
                # (b) filter option
                flt = ('link', k) if key == 'link' else ('fee', k)
                filt = L.run_cli(mode_args(m) + flt_args(flt), data)
                if filt.stats is not None and filt.exit == 0:
                    gotf = sorted(e for e in filt.errors)
                    wantf = sorted(per.get(k, []))
                    if gotf != wantf:
                        ck.violation('filter', {'what': 'errors of a link differ between the full run and the run with a filter selecting that link',
                                                'link': k, 'args': mode_args(m) + flt_args(flt), 'only_full': [e for e in wantf if e not in gotf][:5],
                                                'only_filtered': [e for e in gotf if e not in wantf][:5], 'input_hex': data.hex()})
    ck.sample(dict(note='multi-link conforming streams with 0..3 planted faults, compared per link: full run vs extracted file vs filter'))
    # in-process: one validator fed only its own packets vs the model
    if ctx['harness_ok']:
        for m, hargs, tok in [(('all', 'its'), ['check', 'all', 'its'], 'running=1 target=its'), (('all', 'stave'), ['check', 'all', 'its-stave'], 'running=1 target=stave'),
                              (('sanity', 'its'), ['check', 'sanity', 'its'], 'running=0 target=its')]:
            reqs = []
            for si in range(n):
                base, meta = G.conforming_stream(R, nlinks=R.randint(1, 3), max_hbf=2)
                pk = [p.clone() for p in base]
                for _ in range(R.choice([0, 1, 2])): F[R.choice(fnames)](pk, R)
                data = G.encode(pk)
                groups = {}
                for o, h, p in chain_walk(data):
                    k = (h[2] | h[3] << 8) if m[1] == 'stave' else h[12]
                    groups.setdefault(k, []).append(f'{o}:{h.hex().upper()}:{G.hexs(p)}')
                for k, toks in groups.items():
                    reqs.append(f'link {tok} -- ' + ' '.join(toks))
            impl = L.run_harness(reqs, hargs); model = L.run_driver(reqs)
            dis = [(i, q[:200], a[:300], b[:300]) for i, (q, a, b) in enumerate(zip(reqs, impl, model))
                   if a.strip() != b.strip() and not (a.startswith('PANIC') and b.startswith('PANIC'))]
            ck.corr['link_' + m[0] + '_' + str(m[1])] = dict(cases=len(reqs), disagreements=len(dis))
            report_dis(ck, 'link_' + m[0] + '_' + str(m[1]), dis)


# =============================================================== C07
def run_c07(ck, ctx):
    R, tier = ctx['R'], ctx['tier']
    n = 10 if tier == 'quick' else 150
    jobs = []
    for si in range(n):
        base, meta = G.conforming_stream(R, nlinks=R.randint(1, 4), max_hbf=3)
        pk = [p.clone() for p in base]
        # half of the streams: one link changes its data format at an HBF boundary (each packet's layout
        # still agrees with its own header), and a word behind the change is corrupted
        # some streams also carry RDH-only packets (payload size 0) of an extra link: the offset bookkeeping
        # of the scanner must not depend on packets having a payload
        if si % 3 != 2:
            for _ in range(R.randint(1, 4)):
                pos = R.randint(1, len(pk))
                pk.insert(pos, G.Pkt(dict(link=13, fee=0x6000 | 13, orbit=R.getrandbits(31), page=0, stop=R.choice([0, 1]),
                                          ver=pk[0].rdh['ver'], df=2), [], raw_payload=b''))
            ck.count('streams_with_rdh_only_packets')
        sw = G.switch_format(R, pk) if si % 2 == 0 else []
        ck.count('format_switch_streams', 1 if sw else 0)
        forced = [i for i in sw if len(pk[i].words) > 2]
        # arbitrary corruption that keeps the payload layout in agreement with the header's data format
        for ci in range(R.randint(1, 12)):
            i = R.randrange(len(pk)) if not (ci == 0 and forced) else R.choice(forced)
            if pk[i].words and R.random() < 0.7:
                k = R.randrange(len(pk[i].words))
                w = bytearray(pk[i].words[k])
                if R.random() < 0.5: w[R.randrange(10)] ^= 1 << R.randrange(8)
                else: w = bytearray(R.getrandbits(8) for _ in range(10))
                if pk[i].fmt == 2 and k == 1 and w[:6] == bytes(6): w[0] = 1      # proviso: layout agrees with header
                if pk[i].fmt == 2 and k == len(pk[i].words) - 1 and w[9] == 0xFF: w[9] = 0xFE
                pk[i].words[k] = bytes(w)
            elif i > 0:
                f = R.choice(['res0', 'bc', 'page', 'stop', 'orbit', 'trig', 'det', 'prio'])
                pk[i].rdh[f] = (pk[i].rdh[f] ^ (1 << R.randrange(12))) if f != 'stop' else R.choice([0, 1, 2])
        # a header field that a validator could be tempted to USE (header size, version, system id, priority, reserved) damaged in
        # a packet (not the first of the input) that also carries a damaged payload word: the word's offset and quoted bytes must
        # not depend on what the header claims
        cand = [i for i in range(1, len(pk)) if len(pk[i].words) > 2 and pk[i].raw_payload is None]
        if cand and si % 2 == 1:
            i = R.choice(cand)
            f = ['hsize', 'ver', 'sysid', 'prio', 'res0'][(si // 2) % 5]       # every field once per five streams (seeded C07-m3 needs `hsize`)
            pk[i].rdh[f] = pk[i].rdh[f] ^ (1 << R.randrange(8))
            k = R.randrange(2, len(pk[i].words))
            w = bytearray(pk[i].words[k]); w[R.randrange(9)] ^= 1 << R.randrange(8); w[9] ^= R.choice([1, 0x10])    # the identifier is damaged: a finding at this word
            if k == len(pk[i].words) - 1 and w[9] == 0xFF: w[9] = 0xFE
            pk[i].words[k] = bytes(w)
            ck.count('header_and_word_damaged_in_one_packet')
        data = G.encode(pk)
        for m in [('all', 'its'), ('all', 'stave'), ('sanity', 'its'), ('all', None)]:
            flts = [None]
            l = pk[R.randrange(len(pk))].rdh
            flts.append(('link', l['link']) if m[1] != 'stave' else ('stave', l['fee'] & 0x703F))
            for flt in flts:
                jobs.append((si, m, flt, data))

    def job(j):
        si, m, flt, data = j
        return L.run_cli(mode_args(m) + flt_args(flt), data)
    res = L.pmap(job, jobs)
    reqs, cj, cr = [], [], []
    for j, r in zip(jobs, res):
        si, m, flt, data = j
        ck.case((si, m, flt))
        if r.stats is None or r.exit != 0:
            ck.violation('abnormal', {'what': 'corrupted stream: abnormal termination', 'exit': r.exit, 'args': mode_args(m) + flt_args(flt),
                                      'stderr': L.ANSI.sub('', r.stderr)[-400:], 'input_hex': data.hex()},
                         key='stave-layer-or-alpide-panic' if m[1] == 'stave' else None)
            continue
        walk = chain_walk(data)
        starts = {o: (h, p) for o, h, p in walk}
        for msg, e in zip(r.stats['error_stats']['reported_errors'], r.errors):
            off, code, word = e
            ck.count('code_' + code)
            prob = None
            if off is None or off >= len(data): prob = 'offset outside the input'
            elif code in ('E10', 'E11', 'PAYLOAD'):
                if off not in starts: prob = 'RDH-level message not located at an RDH start'
                else:
                    mrow = re.search(r'current :\s+(.*?)\s+<--- Error', msg)
                    if mrow:
                        h = starts[off][0]; f = hdr_fields(h); toks = mrow.group(1)
                        want = f'{f["ver"]:<6}{h[1]:<7}{f["fee"]:<7}{f["sysid"]:<6}{f["off"]:<8}{f["link"]:<6}{f["pkt"]:<10}{f["bc"]:<5}'
                        if not toks.startswith(want.rstrip()[:20]): prob = 'quoted RDH row differs from the bytes at that offset'
            elif word is not None:
                own = [o for o in starts if o <= off < o + 64 + len(starts[o][1])]
                if not own: prob = 'word offset not inside a packet'
                else:
                    o = own[0]; h = starts[o][0]; slot = 16 if h[24] == 0 else 10
                    if off < o + 64 or (off - o - 64) % slot: prob = 'offset is not the start of a payload word'
                    elif data[off:off + 10].hex().upper() != word: prob = 'quoted word bytes differ from the bytes at the offset'
            else:
                # frame-level / trigger period messages: offset of a TDH word (frame start) or of the current word
                own = [o for o in starts if o <= off < o + 64 + len(starts[o][1])]
                if not own: prob = 'offset not inside a packet'
                else:
                    o = own[0]; h = starts[o][0]; slot = 16 if h[24] == 0 else 10
                    if off < o + 64 or (off - o - 64) % slot: prob = 'offset is not the start of a payload word'
            if prob:
                ck.violation('untruthful', {'what': prob, 'message': msg[:400], 'args': mode_args(m) + flt_args(flt), 'input_hex': data.hex()})
        if flt is None:
            reqs.append(f'run {mode_tok(m)} data={G.hexs(data)}'); cj.append(j); cr.append(r)
    dis = compare_model(ck, 'run_corrupted', cj, cr, reqs)
    report_dis(ck, 'run_corrupted', dis)
    ck.sample(dict(note='every message of the real binary parsed and compared with the file bytes at its offset'))


# =============================================================== C13
def build_frame_stream(R, kind, lanes_spec, fmt=2, split=None, orbit=77):
    """one HBF, one frame: lanes_spec = list of (id, lane bytes). returns pkts"""
    layer = {'IB': 0, 'ML': 3, 'OL': 5}[kind]
    fee = (layer << 12) | 5
    lanes_mask = 0
    for i, _ in lanes_spec:
        lanes_mask |= 1 << ((i & 31) if kind == 'IB' else G.ob_lane(i))
    words = []
    streams = [(i, G.chunk9(b)) for i, b in lanes_spec]
    while any(c for _, c in streams):
        for i, c in streams:
            if c: words.append(G.dw(i, c.pop(0)))
    pages, cur = [], [G.ihw(lanes_mask), G.tdh(trig=3, internal=0, bc=0, orbit=orbit)]
    maxw = split or 100000
    for w in words:
        if len(cur) >= maxw - 1:
            cur.append(G.tdt(0)); pages.append(cur); cur = [G.ihw(lanes_mask), G.tdh(trig=3, internal=0, bc=0, orbit=orbit, cont=1)]
        cur.append(w)
    cur.append(G.tdt(1)); pages.append(cur); pages.append([G.ddw0()])
    return [G.Pkt(dict(fee=fee, link=2, orbit=orbit, trig=0x6a03, page=p, stop=1 if p == len(pages) - 1 else 0, df=fmt), ws, fmt=fmt) for p, ws in enumerate(pages)]


def run_c13(ck, ctx):
    R, tier = ctx['R'], ctx['tier']
    n = 60 if tier == 'quick' else 1500
    jobs = []
    for si in range(n):
        kind = R.choice(['IB', 'ML', 'OL'])
        bc = R.randint(0, 255)
        if kind == 'IB':
            g = R.choice([0, 3, 6]); ids = [0x20 + g + i for i in range(3)]
        elif kind == 'ML': ids = G.ML_IDS[:8] if R.random() < 0.5 else G.ML_IDS[8:]
        else: ids = G.OL_IDS[:14] if R.random() < 0.5 else G.OL_IDS[14:]
        variant = R.choice(['good', 'good', 'lane_missing', 'lane_extra', 'bad_group', 'bc_lane', 'bc_chip', 'chipid', 'empty_frame', 'fatal_lane', 'two_chips_ib'])
        expect = set()
        ids2 = list(ids)
        if variant == 'lane_missing': ids2 = ids[:-1]; expect = {'E72' if kind == 'IB' else 'E73'}
        if variant == 'lane_extra':
            extra = [i for i in (G.IB_IDS if kind == 'IB' else G.OL_IDS) if i not in ids][0]; ids2 = ids + [extra]; expect = {'E72' if kind == 'IB' else 'E73'}
        if variant == 'bad_group' and kind == 'IB': ids2 = [0x20, 0x21, 0x23]; expect = {'E72'}
        spec = []
        for j, i in enumerate(ids2):
            lbc = bc
            if variant == 'bc_lane' and j == 0: lbc = (bc + 1) & 0xFF; expect = {'E74' if kind == 'IB' else 'E75'}
            if kind == 'IB':
                cid = i & 0xF
                if variant == 'chipid' and j == 0: cid = (cid + 1) & 0xF; expect = {'E74'}
                b = G.alp_chip(R, cid, lbc, 10, empty=R.random() < 0.2)
                if variant == 'two_chips_ib' and j == 0: b += G.alp_chip(R, (cid + 1) & 0xF, lbc, 2); expect = {'E74'}
            else:
                b = b''
                base = R.choice([0, 8])
                for c in range(7):
                    cbc = lbc
                    if variant == 'bc_chip' and j == 0 and c == 3: cbc = (lbc + 5) & 0xFF; expect = {'E75'}
                    b += G.alp_chip(R, base + c, cbc, 3, empty=R.random() < 0.3)
                    if R.random() < 0.2: b += b'\0' * R.randint(1, 3)
            if variant == 'fatal_lane' and j == 1: b = bytes([0xF4]) + b
            spec.append((i, b))
        if variant == 'empty_frame': spec = []; expect = {'E701'}
        if variant == 'fatal_lane': expect = set()     # one lane fewer is legal after a fatal APE … in *later* frames; this frame still has all lanes
        pk = build_frame_stream(R, kind, spec, fmt=R.choice([0, 2]), split=R.choice([None, None, 12, 40]))
        # hit-content twin: same skeleton, different hits -> same verdict and statistics
        jobs.append((si, kind, variant, expect, G.encode(pk)))

    # fatal-lane history: a lane announces a fatal APE in the first frame; the later frames of the link come
    # without that lane (legal: expected lane count and inner-barrel grouping shrink) or still with it
    for si in range(12 if tier == 'quick' else 200):
        kind = R.choice(['IB', 'IB', 'ML', 'OL'])
        if kind == 'IB':
            g = R.choice([0, 3, 6]); ids = [0x20 + g + i for i in range(3)]
        elif kind == 'ML': ids = G.ML_IDS[:8]
        else: ids = G.OL_IDS[:14]
        fl = R.randrange(len(ids)) if si % 3 else len(ids) - 1     # often the last lane of the group (lane 2 / 5 / 8)
        keep = R.random() < 0.3
        pk = []
        for fr in range(R.randint(2, 4)):
            spec = []
            for j, i in enumerate(ids):
                if fr > 0 and j == fl and not keep: continue
                if kind == 'IB': b = G.alp_chip(R, i & 0xF, 33, 4)
                else: b = b''.join(G.alp_chip(R, c, 33, 2) for c in range(7))
                if fr == 0 and j == fl: b = bytes([R.choice([0xF4, 0xF5, 0xFA])]) + b
                spec.append((i, b))
            pk += build_frame_stream(R, kind, spec, fmt=2, orbit=100 + fr)
        jobs.append((1000 + si, kind, 'fatal_history', set(), G.encode(pk)))

    def job(j):
        return L.run_cli(['check', 'all', 'its-stave'], j[4])
    res = L.pmap(job, jobs)
    reqs = []
    for j, r in zip(jobs, res):
        si, kind, variant, expect, data = j
        ck.case((si, kind, variant)); ck.count(f'{kind}_{variant}')
        reqs.append(f'run cmd=all target=stave data={G.hexs(data)}')
        if r.stats is None or r.exit != 0:
            ck.violation('abnormal', {'what': 'stave check ended abnormally', 'exit': r.exit, 'variant': variant, 'stderr': L.ANSI.sub('', r.stderr)[-400:],
                                      'input_hex': data.hex()}, key='stave-layer-or-alpide-panic')
            continue
        codes = {e[1] for e in r.errors}
        frame_start = 64 + 10 * 1 if data[24] != 0 else 64 + 16
        if variant in ('fatal_lane', 'fatal_history'):
            continue            # decided by exact agreement with the model (frame_verdict_exact, lane_count_iff)
        if variant in ('good',) and codes:
            ck.violation('false_alarm', {'what': 'a conforming readout frame is reported', 'kind': kind, 'errors': r.errors[:5], 'input_hex': data.hex()})
        for c in expect:
            if not any(e[1] == c and e[0] == frame_start for e in r.errors):
                ck.violation('frame_rule', {'what': 'broken frame rule not reported with its code at the frame start offset', 'kind': kind, 'variant': variant,
                                            'expected': c, 'frame_start': frame_start, 'errors': r.errors[:6], 'input_hex': data.hex()})
    # muting (`-m`) only shortens what is displayed: the frame-level findings (offset, code), the total and the ALPIDE statistics of
    # every readout-frame scenario must be those of the unmuted run (seeded C13-m5: the cross-lane bunch-counter message built only
    # when not muted, and with it the [E74]/[E75] finding lost)
    resm = L.pmap(lambda j: L.run_cli(['check', 'all', 'its-stave', '-m'], j[4]), jobs)
    for j, r, rm in zip(jobs, res, resm):
        if r.stats is None or r.exit != 0: continue
        ck.case((j[0], j[1], j[2], 'muted')); ck.count('frames_muted_runs')
        a = sorted((e[0], e[1]) for e in r.errors); b = sorted((e[0], e[1]) for e in rm.errors) if rm.stats is not None else None
        sa = json.dumps(r.stats.get('alpide_stats'), sort_keys=True); sb = json.dumps(rm.stats.get('alpide_stats'), sort_keys=True) if rm.stats else None
        if a != b or sa != sb or rm.exit != r.exit:
            ck.violation('muted', {'what': 'with --mute-errors the findings or ALPIDE statistics of a readout-frame scenario differ from the unmuted run',
                                   'kind': j[1], 'variant': j[2], 'unmuted': a[:6], 'muted': (b or [])[:6], 'exit_muted': rm.exit, 'input_hex': j[4].hex()})
    dis = compare_model(ck, 'run_frames', jobs, res, reqs)
    # alpide statistics: model vs implementation
    model = model_run(reqs)
    for j, r, m in zip(jobs, res, model):
        if r.stats is None or m['errors'] is None or not r.stats.get('alpide_stats'): continue
        f = r.stats['alpide_stats']['readout_flags']
        mine = f"{f['chip_trailers_seen']},{f['busy_violations']},{f['data_overrun']},{f['transmission_in_fatal']},{f['flushed_incomplete']},{f['strobe_extended']},{f['busy_transitions']}"
        if m['kv'].get('alpide') != mine:
            dis.append((0, 'alpide stats ' + str(j[:3]), mine, m['kv'].get('alpide')))
    ck.corr['run_frames']['disagreements'] = len(dis)
    report_dis(ck, 'run_frames', dis)
    # hit-content independence on the implementation: same skeleton, re-randomised hits
    for si in range(24 if tier == 'quick' else 400):
        kind = R.choice(['IB', 'OL'])
        ids = [0x20, 0x21, 0x22] if kind == 'IB' else G.OL_IDS[:14]
        flags = [R.choice([0, 1, 2, 4, 8, 12, 14]) for _ in range(14 * 7)]
        outs = []
        for rep in range(2):
            spec = []
            adv = rep == 1      # second rendering: hit bytes that look like control words / padding (0x00, 0xB., 0xA., 0xE., 0xF0, 0xFF)
            # every fourth case: in the second rendering one lane carries a very long hit list (5000..9000 bytes, several hundred data
            # words in one frame, spread over pages): what comes behind it (trailer flags, the other chips) must still count
            big = R.randint(5000, 9000) if (adv and si % 4 == 3) else 0
            for j, i in enumerate(ids):
                mb = big if j == 0 else 0
                if kind == 'IB': b = G.alp_chip(R, i & 0xF, 9, 30 if adv else 14, flags=flags[j], adv=adv, min_bytes=mb)
                else: b = b''.join(G.alp_chip(R, c, 9, 8 if adv else 4, flags=flags[j * 7 + c], adv=adv, min_bytes=(mb if c == 0 else 0)) for c in range(7))
                spec.append((i, b))
            if big: ck.count('hits_long_lane')
            r = L.run_cli(['check', 'all', 'its-stave'], G.encode(build_frame_stream(R, kind, spec, split=(400 if big else None))))
            outs.append((sorted(e[1] for e in r.errors), json.dumps(r.stats['alpide_stats'], sort_keys=True) if r.stats else None))
        ck.case(('hits', si))
        if outs[0] != outs[1]:
            ck.violation('hits', {'what': 'verdict or ALPIDE statistics depend on pixel-hit content', 'a': str(outs[0])[:300], 'b': str(outs[1])[:300]})
    ck.sample(dict(kind=jobs[0][1], variant=jobs[0][2], expected=sorted(jobs[0][3])))


# =============================================================== C20
def run_c20(ck, ctx):
    R, tier = ctx['R'], ctx['tier']
    wd = os.path.join(L.CACHE, 'tmp', f'c20_{os.getpid()}')
    os.makedirs(wd, exist_ok=True)
    n = 6 if tier == 'quick' else 60
    jobs = []
    for si in range(n):
        pk, meta = G.conforming_stream(R, nlinks=R.randint(1, 3), layers=[3, 4, 5, 6] if si % 2 else None)
        data = G.encode(pk)
        walk = chain_walk(data)
        cdps = len(walk); pht = sum((hdr_fields(h)['trig'] >> 4) & 1 for o, h, p in walk); ver = walk[0][1][0]
        vers = {h[0] for o, h, p in walk}       # links may carry different RDH versions: the configured version applies to every header
        for delta in (-1, 0, 1):
            for keys in (['cdps'], ['triggers_pht'], ['rdh_version'], ['cdps', 'triggers_pht', 'rdh_version'], []):
                vals = dict(cdps=max(0, cdps + delta), triggers_pht=max(0, pht + delta), rdh_version=ver + delta)
                if delta == -1 and any(vals[k] == dict(cdps=cdps, triggers_pht=pht, rdh_version=ver)[k] for k in keys): continue
                toml = ''.join(f'{k} = {vals[k]}\n' for k in keys) + '#chip_count_ob = 7\n'
                exp = set()
                if delta and 'cdps' in keys: exp.add('E9001')
                if delta and 'triggers_pht' in keys: exp.add('E9002')
                if 'rdh_version' in keys and vers != {vals['rdh_version']}: exp.add('E10')
                jobs.append((si, delta, tuple(keys), toml, exp, data, ['check', 'all', 'its']))
        # chip count / order on outer-barrel lanes (stave mode)
        if any(l['kind'] != 'IB' for l in meta['links']):
            # "observed" exists only if some outer-barrel lane actually carries data (every trigger of a short link may be a
            # no-data trigger): without any outer-barrel frame there is nothing to compare with the configured value
            ob_data = any((p.rdh['fee'] >> 12) >= 3 and any(0x40 <= w[9] <= 0x5E for w in p.words) for p in pk)
            ck.count('c20_ob_stream_with_data' if ob_data else 'c20_ob_stream_without_data')
            for cnt, orders, exp in [(c_, o_, e_ if ob_data else set()) for c_, o_, e_ in [(7, None, set()), (6, None, {'E75'}), (8, None, {'E75'}), (None, [[0, 1, 2, 3, 4, 5, 6], [8, 9, 10, 11, 12, 13, 14]], set()),
                                     (None, [[1, 2, 3, 4, 5, 6, 7]], {'E75'}), (7, [[0, 1, 2, 3, 4, 5, 6], [8, 9, 10, 11, 12, 13, 14]], set())]]:
                toml = (f'chip_count_ob = {cnt}\n' if cnt is not None else '') + (f'chip_orders_ob = {json.dumps(orders)}\n' if orders is not None else '')
                jobs.append((si, 'chips', (cnt, str(orders)), toml, exp, data, ['check', 'all', 'its-stave']))

    # chip ORDER alone configured (no chip count): a lane whose chip list is a strict prefix of a configured order, a configured order
    # followed by one more chip, a permutation, or exactly a configured order — [E75]/[E9005] iff the list is not one of the orders
    ORD = [[0, 1, 2, 3, 4, 5, 6], [8, 9, 10, 11, 12, 13, 14]]
    for kind in ('ML', 'OL'):
        ids = (G.ML_IDS[:8] if kind == 'ML' else G.OL_IDS[:14])
        for vname, chips_of_lane0 in (('exact', [0, 1, 2, 3, 4, 5, 6]), ('exact_upper', [8, 9, 10, 11, 12, 13, 14]), ('prefix', [0, 1, 2, 3, 4, 5]),
                                      ('one_chip', [0]), ('extended', [0, 1, 2, 3, 4, 5, 6, 7]), ('permuted', [0, 2, 1, 3, 4, 5, 6]), ('suffix', [1, 2, 3, 4, 5, 6])):
            spec = []
            for li, i in enumerate(ids):
                chips = chips_of_lane0 if li == 0 else [0, 1, 2, 3, 4, 5, 6]
                spec.append((i, b''.join(G.alp_chip(R, c, 9, 3) for c in chips)))
            data = G.encode(build_frame_stream(R, kind, spec))
            toml = f'chip_orders_ob = {json.dumps(ORD)}\n'
            exp = set() if chips_of_lane0 in ORD else {'E75'}
            ck.count('c20_order_only_' + vname)
            jobs.append((kind, 'chips', ('order_only', vname), toml, exp, data, ['check', 'all', 'its-stave']))

    def job(j):
        si, delta, keys, toml, exp, data, args = j
        p = os.path.join(wd, f'c_{abs(hash((si, delta, keys, toml)))}.toml')
        open(p, 'w').write(toml)
        r = L.run_cli(args + ['-c', p, '-E', '7'], data)
        base = L.run_cli(args + ['-E', '7'], data) if not toml.replace('#chip_count_ob = 7\n', '') else None
        return r, base
    res = L.pmap(job, jobs)
    reqs = []
    for j, (r, base) in zip(jobs, res):
        si, delta, keys, toml, exp, data, args = j
        ck.case((si, delta, keys)); ck.count('custom_' + ('chips' if delta == 'chips' else f'delta{delta}'))
        if r.stats is None:
            ck.violation('abnormal', {'what': 'custom checks run ended abnormally', 'exit': r.exit, 'stderr': L.ANSI.sub('', r.stderr)[-300:], 'toml': toml, 'input_hex': data.hex()}); continue
        es = r.stats['error_stats']
        codes = set(es['unique_error_codes'])
        got = {'E' + c for c in codes}
        want_codes = exp
        spurious = got - want_codes - ({'E9003', 'E9004', 'E9005'} if 'E75' in exp or 'E74' in exp else set())
        missing = want_codes - got
        if missing or spurious or (r.exit == 7) != bool(exp):
            ck.violation('custom', {'what': 'custom check verdict differs from "error iff observed != configured"', 'toml': toml, 'expected_codes': sorted(exp),
                                    'got_codes': sorted(got), 'exit': r.exit, 'args': args, 'input_hex': data.hex()})
        if base is not None and (base.exit != r.exit or base.errors != r.errors):
            ck.violation('default', {'what': 'an all-default custom checks file changes the result', 'toml': toml, 'input_hex': data.hex()})
        kv = []
        for line in toml.split('\n'):
            if line.startswith('cdps'): kv.append('cdps=' + line.split('=')[1].strip())
            if line.startswith('triggers_pht'): kv.append('pht=' + line.split('=')[1].strip())
            if line.startswith('rdh_version'): kv.append('ver=' + line.split('=')[1].strip())
            if line.startswith('chip_count_ob'): kv.append('cnt=' + line.split('=')[1].strip())
            if line.startswith('chip_orders_ob'): kv.append('orders=' + '|'.join('.'.join(map(str, o)) for o in json.loads(line.split('=')[1])))
        reqs.append(f'run cmd=all target={"stave" if "its-stave" in args else "its"} E=7 {" ".join(kv)} data={G.hexs(data)}')
    model = model_run(reqs)
    dis = []
    for j, (r, base), q, m in zip(jobs, res, reqs, model):
        if r.stats is None or m['errors'] is None: continue
        mc = set(m['raw'].split('codes=')[1].split(' ')[0].split(',')) - {''}
        ic = {'E' + c for c in r.stats['error_stats']['unique_error_codes']}
        if mc != ic or m['exit'] != r.exit or int(m['kv']['total']) != r.stats['error_stats']['total_errors']:
            dis.append((0, q[:200], f'exit={r.exit} codes={sorted(ic)} total={r.stats["error_stats"]["total_errors"]}', f'exit={m["exit"]} codes={sorted(mc)} total={m["kv"]["total"]}'))
    ck.corr['run_custom'] = dict(cases=len(reqs), disagreements=len(dis))
    report_dis(ck, 'run_custom', dis)
    # trigger period: E45 for exactly the consecutive internal-trigger TDH pairs whose distance mod 3564 differs from P
    for si in range(10 if tier == 'quick' else 150):
        P = R.choice([1, 10, 198, 3563, 500])
        nt = R.randint(3, 12)
        bcs, internal = [], []
        bc = R.randint(0, 3563)
        for t in range(nt):
            bcs.append(bc); internal.append(1 if R.random() < 0.8 else 0)
            bc = (bc + (P if R.random() < 0.7 else R.randint(0, 3563))) % 3564
        # one HBF per TDH so that BC may wrap (orbit increases)
        pk = []
        fee = (5 << 12) | 3
        for t in range(nt):
            orbit = 100 + t
            tt = 0x6a03
            w = [G.ihw(0x3FFF), G.tdh(trig=tt & 0xFFF if internal[t] == 0 else tt & 0xFFF, internal=internal[t], nodata=1, bc=bcs[t], orbit=orbit)]
            pk.append(G.Pkt(dict(fee=fee, link=1, orbit=orbit, bc=bcs[t], trig=tt, page=0, stop=0), w))
            pk.append(G.Pkt(dict(fee=fee, link=1, orbit=orbit, bc=bcs[t], trig=tt, page=1, stop=1), [G.ddw0()]))
        data = G.encode(pk)
        r = L.run_cli(['check', 'all', 'its-stave', '-s', 'L5_3', '-p', str(P), '-E', '7'], data)
        ck.case(('period', si)); ck.count('period_cases')
        offs = G.offsets(pk)
        want = []
        prev = None
        for t in range(nt):
            if internal[t] and prev is not None and (bcs[t] - bcs[prev]) % 3564 != P:
                want.append(offs[2 * t] + 64 + 10)
            if internal[t]: prev = t
        got = sorted(e[0] for e in r.errors if e[1] == 'E45')
        other = [e for e in r.errors if e[1] != 'E45']
        if got != sorted(want) or other:
            ck.violation('period', {'what': 'trigger period errors are not reported for exactly the mismatching consecutive internal-trigger TDH pairs',
                                    'P': P, 'bcs': bcs, 'internal': internal, 'expected_offsets': sorted(want), 'got_offsets': got, 'other_errors': other[:4],
                                    'input_hex': data.hex()})
    shutil.rmtree(wd, ignore_errors=True)
    ck.sample(dict(toml=jobs[0][3], expected=sorted(jobs[0][4])))


CHECKS = {}
CHECKS = {
    'C01': dict(modules=['FastPasta.Props.C01'], run=run_c01, needs_harness=False, corr='run_conforming',
                theorems=['FastPasta.C01.conforming_rdhs_accepted', 'FastPasta.C01.conforming_step', 'FastPasta.C01.conforming_run',
                          'FastPasta.C01.conforming_words_never_ambiguous', 'FastPasta.C01.conforming_its_accepted',
                          'FastPasta.C01.conforming_stream_accepted', 'FastPasta.C01.conforming_its_step', 'FastPasta.Proto.payload_sim',
                          'FastPasta.Proto.segs_sim', 'FastPasta.Proto.data_sim', 'FastPasta.Proto.cut_payload', 'FastPasta.Proto.payload_words',
                          'FastPasta.C01.run_ids_nodup', 'FastPasta.C01.conforming_input_clean', 'FastPasta.C03.scanLoop_benign', 'FastPasta.C01.conforming_stave_accepted',
                          'FastPasta.C01.conforming_stave_stream_accepted', 'FastPasta.C01.conforming_input_clean_stave', 'FastPasta.C01.run_clean_of_quiet_validators', 'FastPasta.C01.conforming_input_clean_plain',
                          'FastPasta.Proto.spayload_sim', 'FastPasta.Proto.ssegs_sim', 'FastPasta.Proto.frameOk_checks', 'FastPasta.Proto.laneOk_verdict']),
    'C02': dict(modules=['FastPasta.Props.C02', 'FastPasta.Props.C02Run'], run=run_c02, needs_harness=False, corr='run_faulted',
                theorems=['FastPasta.C02.cdw_index_rule_after_conforming_prefix', 'FastPasta.C02.word_handlers_src', 'FastPasta.C02.word_handlers_nonstave_src', 'FastPasta.C02.check_word_src', 'FastPasta.C02.check_words_src', 'FastPasta.C02.payload_src', 'FastPasta.C02.do_payload_checks_src', 'FastPasta.C02.link_step_src', 'FastPasta.C02.link_run_src', 'FastPasta.C02.link_run_src_total', 'FastPasta.C02.link_rel_init', 'FastPasta.C02.stateful_checks_src', 'FastPasta.C02.bc_order_src', 'FastPasta.C02.rdh_sanity_fault_detected', 'FastPasta.C02.rdh_running_fault_detected', 'FastPasta.C02.sanity_mode_no_e11',
                          'FastPasta.C02.ihw_fault_detected', 'FastPasta.C02.tdh_fault_detected', 'FastPasta.C02.tdt_fault_detected',
                          'FastPasta.C02.ddw0_fault_detected', 'FastPasta.C02.ddw0_needs_stop_bit', 'FastPasta.C02.ddw0_needs_page_gt_0',
                          'FastPasta.C02.ihw_needs_stop_0', 'FastPasta.C02.tdh_after_ihw_rules', 'FastPasta.C02.tdh_continuation_rule',
                          'FastPasta.C02.ihw_fault_after_conforming_prefix', 'FastPasta.C02.tdh_fault_after_conforming_prefix',
                          'FastPasta.C02.ddw0_fault_after_conforming_prefix', 'FastPasta.C01.conforming_its_run_to',
                          'FastPasta.C02.status_fault_at_any_depth', 'FastPasta.C02.data_fault_at_any_depth', 'FastPasta.C02.unknown_id_reported_anywhere',
                          'FastPasta.C02.unknown_id_never_silent', 'FastPasta.C02.quiet_class', 'FastPasta.C02.quiet_status_class', 'FastPasta.C02.quiet_data_class',
                          'FastPasta.C02.quiet_governing_ihw', 'FastPasta.C02.preData_codes', 'FastPasta.C02.status_fault_detected',
                          'FastPasta.C02.checkWord_ihw', 'FastPasta.C02.same_shape_same_class',
                          'FastPasta.C02.tdh_bc_order_at_any_depth', 'FastPasta.C02.tdh_first_copies_after_conforming_prefix',
                          'FastPasta.C02.tdh_cont_copies_after_conforming_prefix', 'FastPasta.C02.depth_setup', 'FastPasta.C02.quiet_governing_tdh',
                          'FastPasta.C02.tdh_first_copies', 'FastPasta.C02.tdh_bc_decreasing', 'FastPasta.C02.tdh_cont_copies',
                          'FastPasta.C02.checkWord_fsm_rdh', 'FastPasta.C02.checkWord_tdh',
                          # link level -> whole run: stored in the report, counted, exit status N
                          'FastPasta.C02.link_finding_reported_and_exit', 'FastPasta.C02.run_form_check', 'FastPasta.C06.dispatch_partition',
                          'FastPasta.C14.run_errors_nofatal']),
    'C06': dict(modules=['FastPasta.Props.C06'], run=run_c06, needs_harness=True, corr='link_*',
                theorems=['FastPasta.C06.dispatch_partition', 'FastPasta.C06.interleave_invariant', 'FastPasta.C06.other_links_irrelevant',
                          'FastPasta.C06.step_inv', 'FastPasta.C06.run_inv', 'FastPasta.C06.upd_other', 'FastPasta.C06.upd_own']),
    'C07': dict(modules=['FastPasta.Props.C07'], run=run_c07, needs_harness=False, corr='run_corrupted',
                theorems=['FastPasta.C07.finding_truthful_init', 'FastPasta.C07.finding_truthful', 'FastPasta.C07.linkStep_ok', 'FastPasta.C07.payloadChecks_ok',
                          'FastPasta.C07.checkWords_ok', 'FastPasta.C07.checkWord_ok', 'FastPasta.C07.processFrame_ok', 'FastPasta.C07.preData_ok',
                          # tie by translation (Spec/StateSrcGen.lean): the word offset is the source's CdpTracker
                          'FastPasta.C07.tracker_new_src', 'FastPasta.C07.word_pos_src', 'FastPasta.C07.tracker_step_src']),
    'C13': dict(modules=['FastPasta.Props.C13'], run=run_c13, needs_harness=False, corr='run_frames',
                theorems=['FastPasta.C13.decode_encode', 'FastPasta.C13.hits_irrelevant', 'FastPasta.C13.event_decoded', 'FastPasta.C13.apply_skeleton',
                          'FastPasta.C13.lane_count_iff_ib', 'FastPasta.C13.lane_count_iff_ml', 'FastPasta.C13.lane_count_iff_ol', 'FastPasta.C13.frame_verdict_exact', 'FastPasta.C13.go_spec',
                          # tie by translation: the model's decoder step = the function generated from the Rust source on this run
                          'FastPasta.C13.step_eq_src', 'FastPasta.C13.decodeLane_eq_src', 'FastPasta.C13.action_table', 'FastPasta.C13.guards_eq_src',
                          'FastPasta.C13.src_padding_arm_unreachable',
                          'FastPasta.C13.readout_flags_src']),
    'C20': dict(modules=['FastPasta.Props.C20'], run=run_c20, needs_harness=False, corr='run_custom',
                theorems=['FastPasta.C20.cdps_iff', 'FastPasta.C20.pht_iff', 'FastPasta.C20.absent_is_silent', 'FastPasta.C20.finalize_default',
                          'FastPasta.C20.rdh_version_iff', 'FastPasta.C20.period_eq', 'FastPasta.C20.period_iff', 'FastPasta.C20.no_period_silent',
                          'FastPasta.C20.pairing', 'FastPasta.C20.chip_count_iff', 'FastPasta.C20.chip_order_iff', 'FastPasta.C20.inner_builtin',
                          'FastPasta.C20.ob_unconfigured_silent',
                          'FastPasta.C20.period_src_iff', 'FastPasta.C20.tdh_buffer_src', 'FastPasta.C20.chip_checks_src', 'FastPasta.C20.custom_stats_src']),
}
