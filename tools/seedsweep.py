#!/usr/bin/env python3
"""seedsweep.py <seed> [<seed> ...] — run the quick tier of every check on the unchanged tree under several VERIF_SEED values and list
every VIOLATION line (a check that alarms on the unchanged tree under some seed is broken: false alarm or genuine defect — decide which).
Meant for `vp run -- python3 tools/seedsweep.py 11 12 13` (snapshot of /verif, /repo itself). Not a registered check."""
import json, os, subprocess, sys
ROOT = os.path.dirname(os.path.dirname(os.path.abspath(__file__)))
subprocess.run([sys.executable, os.path.join(ROOT, 'tools', 'setup.py')], capture_output=True)
bad = []
for seed in sys.argv[1:]:
    for i in range(1, 21):
        p = 'C%02d' % i
        r = subprocess.run([sys.executable, os.path.join(ROOT, 'tools', 'check.py'), p, '--no-build'], capture_output=True, text=True, env=dict(os.environ, VERIF_SEED=seed))
        v = [l for l in r.stdout.splitlines() if l.startswith('VIOLATION')]
        for l in v[:3]:
            f = l.split('replay=')[1].split()[0]
            try: d = json.load(open(f)); info = {k: str(x)[:300] for k, x in d.items() if k not in ('input_hex',)}
            except Exception: info = {}
            bad.append((seed, p, info)); print('ALARM seed', seed, p, info, flush=True)
    print('seed', seed, 'done', flush=True)
print('SWEEP RESULT', 'clean' if not bad else f'{len(bad)} alarms')
