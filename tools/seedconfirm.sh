#!/bin/bash
# seedconfirm.sh <worktree> <patch> <demo>  — confirm a seeded change in a scratch worktree:
# applies, compiles, the existing suite passes, the demo shows the violation (exit 0) and shows none on HEAD (exit 1)
set -u
WT=$1; PATCH=$2; DEMO=$3
export CARGO_NET_OFFLINE=true
cd "$WT" || exit 2
git checkout -q -- . ; git apply "$PATCH" || { echo "CONFIRM apply=FAIL"; exit 2; }
T=$(cargo test --workspace --no-fail-fast --offline 2>&1 | grep "^test result" | awk '{p+=$4; f+=$6} END {print p" passed "f" failed"}')
case "$DEMO" in *.py) RUN="python3 $DEMO";; *) RUN="bash $DEMO";; esac
$RUN >/tmp/seedconfirm_mut.log 2>&1; M=$?
git checkout -q -- .
$RUN >/tmp/seedconfirm_clean.log 2>&1; C=$?
echo "CONFIRM tests=[$T] demo_on_mutant=$M demo_on_head=$C"
