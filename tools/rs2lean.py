#!/usr/bin/env python3
"""rs2lean — a small translator from the pure, first-order subset of Rust that fastPASTA's word / header / payload
predicates are written in, to Lean 4 definitions over `Nat`, `Bool`, `Bytes` (= List UInt8) and plain structures.

    rs2lean.py <spec.json> <out.lean>

`spec.json` lists source files (relative to the repository), the items wanted from each (functions, methods, structs, enums,
constants) and the Lean namespace. Everything a wanted function calls must be wanted too (or be a builtin of the table below).

What is preserved (and therefore re-checked by the kernel against the hand-written model on every run):
  * struct layouts and loaders (`LittleEndian::read_uN(&buf[a..=b])`, `buf[i]`, `uN::from_le_bytes([..])`),
  * integer arithmetic with the width of the Rust type: `<<`, `+`, `-`, `*` wrap as in the release profile, `as` truncates,
    `&`/`|`/`^`/`>>`/`%`/`/` are the Nat operations; a literal (or constant) mask operand of `&` is emitted as a union of
    contiguous runs `Rs.mask k n` and the generated file contains a kernel-checked `example` that the union equals the literal;
  * control flow: `let`, shadowing assignment, `if`/`else`, early `return`, `?`, `match` on enums / integers without guards,
    `if let Err(e) = …`, closures in iterator chains (`iter rev skip take take_while count collect any all chunks_exact`);
  * a Rust `String` is abstracted to `Rs.Str` = (is it non-empty?, the numeric codes `[E<n>]` in its literal text, in order);
    `Result<T, String|Box<str>|Vec<String>>` to `Rs.Res T` (= ok value | err Str).
Dropped: logging, `debug_assert!`, formatting arguments (only the literal text of a format string matters).
Anything outside the subset raises TranslateError (exit 2): the caller then writes a file that does not compile, so that the tie
is reported as broken instead of being kept from an older run.
"""
import json, os, re, sys


class TranslateError(Exception):
    pass


# ---------------------------------------------------------------------------------------------- tokenizer
TOK = re.compile(r'''
    (?P<ws>\s+) | (?P<lc>//[^\n]*) | (?P<bc>/\*.*?\*/) |
    (?P<str>b?"(?:\\.|[^"\\])*") |
    (?P<chr>b?'(?:\\.|[^'\\])') |
    (?P<life>'[A-Za-z_][A-Za-z0-9_]*) |
    (?P<num>0x[0-9A-Fa-f_]+(?:[ui](?:8|16|32|64|size))? | 0b[01_]+(?:[ui](?:8|16|32|64|size))? | [0-9][0-9_]*(?:[ui](?:8|16|32|64|size))?) |
    (?P<id>[A-Za-z_][A-Za-z0-9_]*) |
    (?P<op>\.\.=|\.\.\.|<<=|>>=|::|->|=>|==|!=|<=|>=|&&|\|\||<<|>>|\+=|-=|\*=|/=|%=|\|=|&=|\^=|\.\.|[-+*/%&|^!<>=.,;:(){}\[\]#?@$~])
''', re.S | re.X)


def tokenize(text):
    out, i = [], 0
    while i < len(text):
        m = TOK.match(text, i)
        if not m:
            raise TranslateError('cannot tokenize at: ' + text[i:i + 40])
        i = m.end()
        k = m.lastgroup
        if k in ('ws', 'lc', 'bc'):
            continue
        out.append((k, m.group(k)))
    # drop attributes  #[...]  #![...]
    res, j = [], 0
    while j < len(out):
        if out[j] == ('op', '#'):
            j += 1
            if j < len(out) and out[j] == ('op', '!'): j += 1
            if j < len(out) and out[j] == ('op', '['):
                d = 0
                while True:
                    if out[j] == ('op', '['): d += 1
                    if out[j] == ('op', ']'):
                        d -= 1
                        if d == 0: break
                    j += 1
                j += 1
                continue
            raise TranslateError('stray #')
        res.append(out[j]); j += 1
    return res


TYPE_ALIAS = {}     # generic parameter -> concrete type (from the spec)
FLAGS = {}          # spec options, e.g. vec_u8_as_list, struct_fields
OPAQUE = {}         # spec: {'type': LeanName, 'chains': {'a().b()': [rust type, field]}} for trait-object parameters
EXTERN = {}         # struct name -> namespace of another generated file that defines it (and the functions it owns)
INT_TYPES = {'u8': 8, 'u16': 16, 'u32': 32, 'u64': 64, 'usize': 64}
# signed integers: only stored, returned and produced by `as` from an unsigned value (two's complement, `Rs.toSigned`); no arithmetic
SINT_TYPES = {'i8': 8, 'i16': 16, 'i32': 32, 'i64': 64, 'isize': 64}


class P:
    """token cursor + parser"""
    def __init__(self, toks): self.t = toks; self.i = 0
    def peek(self, k=0): return self.t[self.i + k] if self.i + k < len(self.t) else ('eof', '')
    def next(self): x = self.peek(); self.i += 1; return x
    def at(self, v): return self.peek()[1] == v and self.peek()[0] in ('op', 'id')
    def eat(self, v):
        if self.at(v): self.i += 1; return True
        return False
    def expect(self, v):
        if not self.eat(v): raise TranslateError(f'expected {v!r}, found {self.peek()[1]!r} (…{" ".join(x[1] for x in self.t[max(0,self.i-8):self.i+4])}…)')
    def ident(self):
        k, v = self.next()
        if k != 'id': raise TranslateError(f'identifier expected, found {v!r}')
        return v

    def skip_balanced(self, open_, close):
        d = 0
        while True:
            k, v = self.next()
            if k == 'eof': raise TranslateError('unbalanced ' + open_)
            if (k, v) == ('op', open_): d += 1
            elif (k, v) == ('op', close):
                d -= 1
                if d == 0: return

    # ------------------------------------------------------------------ types
    def ty(self):
        if self.eat('&'):
            if self.peek()[0] == 'life': self.next()
            self.eat('mut')
            return self.ty()
        if self.eat('('):
            if self.eat(')'): return 'unit'
            ts = [self.ty()]
            while self.eat(','): ts.append(self.ty())
            self.expect(')')
            return ('tuple', tuple(ts)) if len(ts) > 1 else ts[0]
        if self.eat('['):
            t = self.ty()
            if self.eat(';'): self.expr()
            self.expect(']')
            return 'bytes' if t == 'u8' else ('slice', t)
        if self.eat('impl') or self.eat('dyn'):
            t = self.ty_path()
            while self.eat('+'): self.ty_path()
            # `impl RDH` with an alias RDH -> RdhCru in the spec: the concrete type the binary instantiates
            return t if (isinstance(t, tuple) and t[0] == 'struct' and t[1] in TYPE_ALIAS.values()) else 'opaque'
        return self.ty_path()

    def ty_path(self):
        name = self.ident()
        while self.eat('::'): name = self.ident()
        args = []
        if self.at('<'):
            self.next()
            while not self.at('>') and not self.at('>>'):
                if self.peek()[0] == 'life': self.next()
                else: args.append(self.ty())
                if not self.eat(','): break
            if self.at('>>'):      # split
                self.t[self.i] = ('op', '>'); self.t.insert(self.i, ('op', '>'))
            self.expect('>')
        if name in INT_TYPES or name in SINT_TYPES or name == 'bool': return name
        if name in ('String', 'str'): return 'string'
        if name == 'Box' and args == ['string']: return 'string'
        if name == 'Vec':
            if args and args[0] == 'u8' and not FLAGS.get('vec_u8_as_list'): return 'bytes'
            if args and args[0] == 'string': return 'strings'
            return ('vec', args[0] if args else 'opaque')
        if name == 'Result': return ('result', args[0], args[1] if len(args) > 1 else 'opaque') if args else 'opaque'
        if name == 'Option': return ('option', args[0]) if args else 'opaque'
        if name == 'RangeInclusive': return ('range', args[0]) if args else 'opaque'
        if name == 'ChunksExact': return 'chunks'
        if name == 'Self': return ('struct', 'Self')
        if name in TYPE_ALIAS: return ('struct', TYPE_ALIAS[name])
        return ('struct', name)

    # ------------------------------------------------------------------ expressions
    BIN = [('||',), ('&&',), ('==', '!=', '<', '>', '<=', '>='), ('|',), ('^',), ('&',), ('<<', '>>'), ('+', '-'), ('*', '/', '%')]

    def expr(self, nostruct=False):
        e = self.binary(0, nostruct)
        if self.at('..') or self.at('..='):
            op = self.next()[1]
            hi = None
            if not (self.at(']') or self.at(')') or self.at(';') or self.at(',')):
                hi = self.binary(0, nostruct)
            return ('range', e, hi, op == '..=')
        return e

    def binary(self, lvl, nostruct):
        if lvl == len(self.BIN): return self.cast(nostruct)
        l = self.binary(lvl + 1, nostruct)
        while self.peek()[0] == 'op' and self.peek()[1] in self.BIN[lvl]:
            op = self.next()[1]
            r = self.binary(lvl + 1, nostruct)
            l = ('bin', op, l, r)
        return l

    def cast(self, nostruct):
        e = self.unary(nostruct)
        while self.eat('as'):
            e = ('as', e, self.ty())
        return e

    def unary(self, nostruct):
        if self.eat('!'): return ('not', self.unary(nostruct))
        if self.eat('-'): return ('neg', self.unary(nostruct))
        if self.eat('*'): return ('deref', self.unary(nostruct))
        if self.eat('&'):
            self.eat('mut'); return ('ref', self.unary(nostruct))
        if self.eat('&&'):
            self.eat('mut'); return ('ref', ('ref', self.unary(nostruct)))
        return self.postfix(nostruct)

    def postfix(self, nostruct):
        e = self.primary(nostruct)
        while True:
            if self.eat('.'):
                if self.peek()[0] == 'num':
                    e = ('tfield', e, int(self.next()[1])); continue
                name = self.ident()
                if self.at('::'):            # turbofish
                    self.next(); self.expect('<'); d = 1
                    while d:
                        v = self.next()[1]
                        if v == '<': d += 1
                        elif v == '>': d -= 1
                        elif v == '>>': d -= 2
                if self.at('('):
                    e = ('mcall', e, name, self.args())
                else:
                    e = ('field', e, name)
            elif self.at('['):
                self.next()
                if self.at('..') or self.at('..='):
                    op = self.next()[1]
                    hi = self.binary(0, False)
                    idx = ('range', None, hi, op == '..=')
                else:
                    idx = self.expr()
                self.expect(']')
                e = ('index', e, idx)
            elif self.at('?'):
                self.next(); e = ('try', e)
            else:
                return e

    def args(self):
        self.expect('(')
        a = []
        while not self.at(')'):
            a.append(self.expr())
            if not self.eat(','): break
        self.expect(')')
        return a

    def primary(self, nostruct):
        k, v = self.peek()
        if k == 'num':
            self.next()
            m = re.match(r'(0x[0-9A-Fa-f_]+?|0b[01_]+?|[0-9][0-9_]*?)((?:[ui](?:8|16|32|64|size))?)$', v)
            return ('lit', int(m.group(1).replace('_', ''), 0), m.group(2) or None, v)
        if k == 'str':
            self.next(); return ('str', v[v.index('"') + 1:-1])
        if k == 'op' and v == '(':
            self.next()
            if self.eat(')'): return ('unit',)
            e = self.expr()
            if self.at(','):
                es = [e]
                while self.eat(','):
                    if self.at(')'): break
                    es.append(self.expr())
                self.expect(')'); return ('tuple', es)
            self.expect(')'); return ('paren', e)
        if k == 'op' and v == '[':
            self.next(); es = []
            while not self.at(']'):
                es.append(self.expr())
                if not self.eat(','): break
            self.expect(']'); return ('array', es)
        if k == 'op' and v == '{':
            return ('block', self.block())
        if k == 'op' and v in ('|', '||'):
            self.next(); params = []
            if v == '|':
                while not self.at('|'):
                    pat = ''
                    while self.at('&'): self.next(); pat += '&'
                    params.append((pat, self.ident()))
                    if self.eat(':'): self.ty()
                    if not self.eat(','): break
                self.expect('|')
            return ('closure', params, self.expr())
        if k == 'id':
            if v == 'if': return self.if_()
            if v == 'match': return self.match_()
            if v == 'return':
                self.next()
                if self.at(';') or self.at('}'): return ('return', None)
                return ('return', self.expr())
            if v == 'unsafe':
                self.next(); return ('block', self.block())
            if v in ('true', 'false'):
                self.next(); return ('bool', v == 'true')
            path = [self.ident()]
            while self.at('::'):
                self.next()
                if self.at('<'):      # turbofish in path
                    self.next(); d = 1
                    while d:
                        x = self.next()[1]
                        if x == '<': d += 1
                        elif x == '>': d -= 1
                        elif x == '>>': d -= 2
                    continue
                path.append(self.ident())
            if self.at('!'):          # macro
                self.next()
                close = {'(': ')', '[': ']', '{': '}'}[self.peek()[1]]
                open_ = self.next()[1]
                start = self.i; d = 1
                while d:
                    x = self.next()
                    if x[0] == 'eof': raise TranslateError('unbalanced macro ' + path[-1])
                    if x == ('op', open_): d += 1
                    elif x == ('op', close): d -= 1
                return ('macro', path[-1], self.t[start:self.i - 1])
            if self.at('('):
                return ('call', path, self.args())
            if self.at('{') and not nostruct and path[-1][0].isupper() and (self.peek(1)[1] == '}' or (self.peek(1)[0] == 'id' and self.peek(2)[1] in (':', ',', '}'))):
                self.next(); fs = []
                while not self.at('}'):
                    f = self.ident()
                    if self.eat(':'): fs.append((f, self.expr()))
                    else: fs.append((f, ('path', [f])))
                    if not self.eat(','): break
                self.expect('}')
                return ('structlit', path, fs)
            return ('path', path)
        raise TranslateError(f'unexpected token {v!r} in expression (…{" ".join(x[1] for x in self.t[max(0,self.i-8):self.i+4])}…)')

    def if_(self):
        self.expect('if')
        if self.eat('let'):
            pat = self.pattern()
            self.expect('=')
            scrut = self.expr(nostruct=True)
            cond = ('iflet', pat, scrut)
        else:
            cond = self.expr(nostruct=True)
        then = self.block()
        els = None
        if self.eat('else'):
            if self.at('if'): els = [('expr', self.if_(), False)]
            else: els = self.block()
        return ('if', cond, then, els)

    def pattern(self):
        """patterns: _, literal, literal..=literal, Path, Path(binder), a | b, name"""
        alts = [self.pattern1()]
        while self.eat('|'): alts.append(self.pattern1())
        return alts[0] if len(alts) == 1 else ('por', alts)

    def pattern1(self):
        k, v = self.peek()
        if k == 'num' or (k == 'id' and (v[0].isupper() or self.peek(1)[1] == '::')):
            lo = self.pat_atom()
            if self.eat('..='):
                return ('prange', lo, self.pat_atom())
            return lo
        if k == 'id':
            self.next()
            return ('pwild',) if v == '_' else ('pbind', v)
        if self.eat('&'): return self.pattern1()
        raise TranslateError('pattern not supported: ' + v)

    def pat_atom(self):
        k, v = self.peek()
        if k == 'num':
            self.next(); return ('plit', int(re.sub(r'[ui](8|16|32|64|size)$', '', v).replace('_', ''), 0))
        path = [self.ident()]
        while self.eat('::'): path.append(self.ident())
        if self.at('('):
            self.next(); subs = []
            while not self.at(')'):
                subs.append(self.pattern())
                if not self.eat(','): break
            self.expect(')')
            return ('pctor', path, subs)
        return ('ppath', path)

    def match_(self):
        self.expect('match')
        scrut = self.expr(nostruct=True)
        self.expect('{')
        arms = []
        while not self.at('}'):
            pat = self.pattern()
            guard = None
            if self.eat('if'): guard = self.expr(nostruct=True)
            self.expect('=>')
            body = self.expr()
            if self.peek()[0] == 'op' and self.peek()[1] in ('=', '+=', '-=', '|=', '&=', '*='):      # `pat => place op= value,`
                op = self.next()[1]
                body = ('block', [('assign', body, op, self.expr())])
            arms.append((pat, guard, body))
            if not self.eat(','):
                if not self.at('}') and body[0] != 'block': raise TranslateError('match arm separator')
        self.expect('}')
        return ('match', scrut, arms)

    # ------------------------------------------------------------------ statements
    def block(self):
        self.expect('{')
        stmts = []
        while not self.at('}'):
            if self.eat(';'): continue
            if self.at('let'):
                self.next(); self.eat('mut')
                pat = self.pattern() if not self.at('(') else self.tuple_pat()
                ty = None
                if self.eat(':'): ty = self.ty()
                self.expect('=')
                e = self.expr()
                self.expect(';')
                stmts.append(('let', pat, ty, e)); continue
            if self.at('const'):
                self.next(); n = self.ident(); self.expect(':'); ty = self.ty(); self.expect('='); e = self.expr(); self.expect(';')
                stmts.append(('let', ('pbind', n), ty, e)); continue
            e = self.expr()
            if self.peek()[0] == 'op' and self.peek()[1] in ('=', '+=', '-=', '|=', '&=', '*='):
                op = self.next()[1]
                r = self.expr()
                if not self.at('}'): self.expect(';')          # `{ place op= value }`: a unit-valued tail assignment
                stmts.append(('assign', e, op, r)); continue
            semi = self.eat(';')
            stmts.append(('expr', e, not semi and self.at('}')))
        self.expect('}')
        return stmts

    def tuple_pat(self):
        self.expect('('); ns = []
        while not self.at(')'):
            ns.append(self.ident())
            if not self.eat(','): break
        self.expect(')')
        return ('ptuple', ns)


# ---------------------------------------------------------------------------------------------- item scanner
class Items:
    def __init__(self):
        self.structs = {}    # name -> [(field, ty)]   (tuple structs: fields '0','1',…)
        self.enums = {}      # name -> [variant]
        self.consts = {}     # qualified name -> (ty, expr)
        self.fns = {}        # qualified name -> dict(params, ret, body, selfkind, owner)
        self.in_trait = False

    def scan(self, toks, owner=None):
        p = P(toks)
        while p.peek()[0] != 'eof':
            self.item(p, owner)

    def item(self, p, owner):
        # visibility
        if p.eat('pub'):
            if p.at('('): p.skip_balanced('(', ')')
        k, v = p.peek()
        if v == 'use' or v == 'extern' or v == 'type':
            while not p.eat(';'): p.next()
            return
        if v == 'mod':
            p.next(); name = p.ident()
            if p.eat(';'): return
            start = p.i; p.skip_balanced('{', '}')
            if name != 'tests':
                self.scan(p.t[start + 1:p.i - 1], owner)
            return
        if v == 'struct':
            p.next(); name = p.ident()
            if p.at('<'): p.skip_balanced('<', '>')
            if p.eat(';'): self.structs[name] = []; return
            if p.at('('):
                p.next(); fs = []
                while not p.at(')'):
                    p.eat('pub'); fs.append((str(len(fs)), p.ty()))
                    if not p.eat(','): break
                p.expect(')'); p.eat(';')
                self.structs[name] = fs; return
            p.expect('{'); fs = []
            while not p.at('}'):
                if p.eat('pub'):
                    if p.at('('): p.skip_balanced('(', ')')
                f = p.ident(); p.expect(':'); ft = p.ty()
                if ft != ('struct', 'PhantomData'): fs.append((f, ft))
                if not p.eat(','): break
            p.expect('}')
            self.structs[name] = fs; return
        if v == 'enum':
            p.next(); name = p.ident()
            if p.at('<'): p.skip_balanced('<', '>')
            p.expect('{'); vs = []
            while not p.at('}'):
                vn = p.ident()
                payload = None
                if p.at('('):
                    p.next(); payload = []
                    while not p.at(')'):
                        payload.append(p.ty())
                        if not p.eat(','): break
                    p.expect(')')
                if p.at('{'):
                    p.skip_balanced('{', '}'); payload = ['struct-like']
                if p.eat('='): p.expr()
                vs.append((vn, payload))
                if not p.eat(','): break
            p.expect('}')
            self.enums[name] = vs; return
        if v == 'impl':
            p.next()
            if p.at('<'): p.skip_balanced('<', '>')
            t1 = p.ty()
            is_trait = False
            if p.eat('for'):
                t1 = p.ty(); is_trait = True
            if p.at('where'):
                while not p.at('{'): p.next()
            name = t1[1] if isinstance(t1, tuple) else str(t1)
            start = p.i; p.skip_balanced('{', '}')
            prev = self.in_trait; self.in_trait = is_trait
            self.scan(p.t[start + 1:p.i - 1], name)
            self.in_trait = prev
            return
        if v == 'trait':
            while not p.at('{'): p.next()
            p.skip_balanced('{', '}'); return
        if v == 'const' and p.peek(1)[1] != 'fn':
            p.next(); name = p.ident(); p.expect(':'); ty = p.ty(); p.expect('=')
            start = p.i
            try:
                e = p.expr(); p.expect(';')
            except TranslateError:
                p.i = start
                while not p.eat(';'):
                    if p.at('{'): p.skip_balanced('{', '}')
                    else: p.next()
                e = None
            self.consts[(owner + '::' if owner else '') + name] = (ty, e); return
        if v == 'static':
            while not p.eat(';'): p.next()
            return
        if v in ('fn', 'const', 'unsafe', 'async'):
            is_const = False
            while p.peek()[1] in ('const', 'unsafe', 'async'):
                if p.peek()[1] == 'const': is_const = True
                p.next()
            p.expect('fn'); name = p.ident()
            if p.at('<'): p.skip_balanced('<', '>')
            p.expect('('); params = []; selfkind = None; mutparams = []
            while not p.at(')'):
                if p.at('&') and (p.peek(1)[1] == 'self' or (p.peek(1)[1] == 'mut' and p.peek(2)[1] == 'self') or (p.peek(1)[0] == 'life')):
                    p.next()
                    if p.peek()[0] == 'life': p.next()
                    selfkind = 'mut' if p.eat('mut') else 'ref'
                    p.expect('self')
                elif p.at('self'):
                    p.next(); selfkind = 'val'
                elif p.at('mut') and p.peek(1)[1] == 'self':
                    p.next(); p.next(); selfkind = 'val'
                else:
                    p.eat('mut'); pn = p.ident(); p.expect(':')
                    if p.at('&') and (p.peek(1)[1] == 'mut' or (p.peek(1)[0] == 'life' and p.peek(2)[1] == 'mut')): mutparams.append(pn)
                    params.append((pn, p.ty()))
                if not p.eat(','): break
            p.expect(')')
            ret = 'unit'
            if p.eat('->'): ret = p.ty()
            if p.at('where'):
                while not p.at('{'): p.next()
            if p.eat(';'): return
            start = p.i; p.skip_balanced('{', '}')
            q = (owner + '::' if owner else '') + name
            # Rust resolves `x.m()` to an inherent method before a trait method of the same name
            if self.in_trait and q in self.fns and not self.fns[q]['trait']:
                return
            self.fns[q] = dict(params=params, ret=ret, toks=p.t[start:p.i], selfkind=selfkind, owner=owner, name=name,
                               trait=self.in_trait, const=is_const, mutparams=mutparams)
            return
        if v == 'macro_rules':
            p.next(); p.next(); p.ident(); p.skip_balanced('{', '}'); return
        # anything else: a macro invocation item such as sm! { … } or crate::validate_fields!( … )
        j = 0
        while k == 'id' and p.peek(j)[0] == 'id' and p.peek(j + 1)[1] == '::': j += 2
        if k == 'id' and p.peek(j)[0] == 'id' and p.peek(j + 1)[1] == '!':
            for _ in range(j): p.next()
            p.next(); p.next()
            o = p.peek()[1]; p.skip_balanced(o, {'(': ')', '{': '}', '[': ']'}[o]); p.eat(';'); return
        raise TranslateError(f'item not understood at {v!r}')


# ---------------------------------------------------------------------------------------------- translation
def mask_runs(v):
    runs, k = [], 0
    while v >> k:
        if (v >> k) & 1:
            n = 0
            while (v >> (k + n)) & 1: n += 1
            runs.append((k, n)); k += n
        else:
            k += 1
    return runs


EXTERN_FNS = {}     # free function name -> namespace of another generated file that defines it


def lean_name(q):
    owner = q.split('::')[0] if '::' in q else None
    if owner in EXTERN: return EXTERN[owner] + '.' + q.replace('::', '.')
    if q in EXTERN_FNS: return EXTERN_FNS[q] + '.' + q
    return q.replace('::', '.')


def lean_struct(n):
    return EXTERN[n] + '.' + n if n in EXTERN else n


LOGS = {'debug', 'info', 'warn', 'error', 'trace'}


class Tr:
    def __init__(self, items, ns):
        self.it = items; self.ns = ns
        self.audits = []       # kernel-checked facts about literal masks
        self.wanted_fns = []
        self.notes = []

    # ---- helpers
    def width(self, ty):
        return INT_TYPES.get(ty)

    def wrap(self, s, ty):
        w = self.width(ty)
        if w is None: raise TranslateError(f'arithmetic on unknown width ({ty}): {s}')
        return f'(({s}) % 2^{w})'

    def lean_ty(self, ty, self_ty=None):
        if isinstance(ty, str) and (ty in INT_TYPES or ty == 'lit'): return 'Nat'
        if isinstance(ty, str) and ty in SINT_TYPES: return 'Int'
        if ty == 'bool': return 'Bool'
        if ty == 'bytes': return 'Bytes'
        if ty == 'string': return 'Rs.Str'
        if ty == 'strings': return 'Rs.Str'
        if ty == 'unit': return 'Unit'
        if ty == 'opaque' and OPAQUE: return OPAQUE['type']
        if ty == 'chunks': return '(List Bytes)'
        if isinstance(ty, tuple) and ty[0] == 'result' and self.err_is_value(ty):
            return f'(Rs.ResV {self.lean_ty(ty[2], self_ty)} {self.lean_ty(ty[1], self_ty)})'
        if isinstance(ty, tuple):
            if ty[0] == 'struct' and ty[1] == 'RsReports': return '(List Rs.Report)'
            if ty[0] == 'struct' and ty[1] == 'RsFsm': return 'FsmSt'
            if ty[0] == 'struct' and ty[1] == 'RsStats': return '(List Rs.Stat)'
            if ty[0] == 'struct':
                n = self_ty if ty[1] == 'Self' else ty[1]
                return lean_struct(n)
            if ty[0] == 'result': return f'(Rs.Res {self.lean_ty(ty[1], self_ty)})'
            if ty[0] == 'option': return f'(Option {self.lean_ty(ty[1], self_ty)})'
            if ty[0] == 'range': return '(Nat × Nat)'
            if ty[0] == 'tuple': return '(' + ' × '.join(self.lean_ty(t, self_ty) for t in ty[1]) + ')'
            if ty[0] == 'vec' and ty[1] in ('u8', ('struct', 'u8')) and not FLAGS.get('vec_u8_as_list'): return 'Bytes'
            if ty[0] in ('vec', 'slice'): return 'Bytes' if ty[1] == 'opaque' else f'(List {self.lean_ty(ty[1], self_ty)})'
        raise TranslateError(f'type not supported: {ty}')

    def err_is_value(self, ty):
        """`Result<T, E>` whose error is a plain value (integer, unit), not a message"""
        return isinstance(ty, tuple) and ty[0] == 'result' and (ty[2] in INT_TYPES or ty[2] == 'unit' or
                                                                (isinstance(ty[2], tuple) and ty[2][0] == 'struct' and ty[2][1] in self.it.enums))

    def const_value(self, q, owner):
        """integer value of a constant (for masks); None if not a plain integer constant"""
        for cand in ([owner + '::' + q] if owner and '::' not in q else []) + [q]:
            if cand in self.it.consts:
                ty, e = self.it.consts[cand]
                if e is not None and e[0] == 'lit': return e[1]
        return None

    def literal_value(self, e, env):
        while e[0] == 'paren': e = e[1]
        if e[0] == 'lit': return e[1]
        if e[0] == 'path':
            n = '::'.join('Self' == x and env['owner'] or x for x in e[1])
            if len(e[1]) == 1 and e[1][0] in env['consts']: return env['consts'][e[1][0]]
            return self.const_value(n, env['owner'])
        return None

    def mask_expr(self, v):
        if v == 0: return '0'
        runs = mask_runs(v)
        s = ' ||| '.join(f'Rs.mask {k} {n}' for k, n in runs)
        s = f'({s})'
        fact = f'example : {s} = {v} := by decide'
        if fact not in self.audits: self.audits.append(fact)
        return s

    # ---- expressions: returns (lean, type)
    def ex(self, e, env, expect=None):
        k = e[0]
        if k == 'paren':
            s, t = self.ex(e[1], env, expect); return f'({s})', t
        if k == 'lit':
            ty = e[2] or 'lit'
            return str(e[1]), (ty if ty != 'lit' else (expect if expect in INT_TYPES else 'lit'))
        if k == 'bool': return ('true' if e[1] else 'false'), 'bool'
        if k == 'unit': return '()', 'unit'
        if k == 'str': return self.str_lit(e[1], [], env), 'string'
        if k == 'path': return self.path(e[1], env)
        if k == 'ref' or k == 'deref': return self.ex(e[1], env, expect)
        if k == 'not':
            s, t = self.ex(e[1], env)
            if t == 'bool': return f'(!{s})', 'bool'
            w = self.width(t)
            if w is None: raise TranslateError('! on unknown type')
            return f'(2^{w} - 1 - {s})', t
        if k == 'as':
            s, t = self.ex(e[1], env)
            tt = e[2]
            if tt in SINT_TYPES:
                if t not in INT_TYPES: raise TranslateError(f'cast from {t} to {tt}')
                w = SINT_TYPES[tt]
                return f'(Rs.toSigned {w} ({s} % 2^{w}))', tt
            if tt not in INT_TYPES: raise TranslateError(f'cast to {tt}')
            if t == 'bool': return f'(if {s} then 1 else 0)', tt
            if t == 'lit' or self.width(t) is None or self.width(tt) < self.width(t):
                return f'({s} % 2^{self.width(tt)})', tt
            return s, tt
        if k == 'bin': return self.binop(e, env, expect)
        if k == 'field':
            s, t = self.ex(e[1], env)
            if not (isinstance(t, tuple) and t[0] == 'struct'): raise TranslateError(f'field {e[2]} of non-struct {t}')
            sn = env['owner'] if t[1] == 'Self' else t[1]
            for f, ft in self.it.structs.get(sn, []):
                if f == e[2]:
                    if sn in FLAGS.get('struct_fields', {}) and f not in FLAGS['struct_fields'][sn]:
                        raise TranslateError(f'field {sn}.{f} is outside the translated projection of the struct')
                    return f'{s}.{self.fld(f)}', ft
            raise TranslateError(f'unknown field {sn}.{e[2]}')
        if k == 'tfield':
            s, t = self.ex(e[1], env)
            if isinstance(t, tuple) and t[0] == 'struct':
                fs = self.it.structs.get(t[1], [])
                return f'{s}.{self.fld(fs[e[2]][0])}', fs[e[2]][1]
            if isinstance(t, tuple) and t[0] == 'tuple':
                return f'{s}.{e[2] + 1}', t[1][e[2]]
            if isinstance(t, tuple) and t[0] == 'range':
                return f'{s}.{e[2] + 1}', t[1]
            raise TranslateError(f'tuple field of {t}')
        if k == 'index': return self.index(e, env)
        if k == 'call': return self.call(e, env, expect)
        if k == 'mcall': return self.mcall(e, env, expect)
        if k == 'if':
            return self.if_expr(e, env, expect)
        if k == 'match': return self.match_expr(e, env, expect)
        if k == 'block':
            return self.block_value(e[1], env, expect)
        if k == 'macro':
            if e[1] == 'format':
                return self.fmt_macro(e[2], env), 'string'
            if e[1] == 'matches':
                p = P(list(e[2]) + [('op', ')')])
                scrut = p.expr(); p.expect(','); pat = p.pattern()
                sx, st = self.ex(scrut, env)
                def pat_val(pt):
                    if pt[0] == 'ppath': return self.path(pt[1], env)[0]
                    if pt[0] == 'pctor' and pt[1] == ['Some'] and len(pt[2]) == 1: return f'(some {pat_val(pt[2][0])})'
                    if pt[0] == 'plit': return str(pt[1])
                    raise TranslateError('matches! pattern')
                alts = pat[1] if pat[0] == 'por' else [pat]
                return '(' + ' || '.join(f'({sx} == {pat_val(a)})' for a in alts) + ')', 'bool'
            raise TranslateError(f'macro {e[1]}! in expression position')
        if k == 'array':
            parts = [self.ex(x, env, 'u8') for x in e[1]]
            return '[' + ', '.join(f'UInt8.ofNat {s}' for s, _ in parts) + ']', 'bytes'
        if k == 'structlit':
            sn = e[1][-1]
            if sn == 'Self': sn = env['owner']
            fs = dict(self.it.structs.get(sn, []))
            parts = []
            for f, fe in e[2]:
                if f not in fs: continue          # PhantomData
                s, _ = self.ex(fe, env, fs.get(f) if isinstance(fs.get(f), str) else None)
                parts.append(f'{self.fld(f)} := {s}')
            if not parts: return f'({{}} : {lean_struct(sn)})', ('struct', sn)
            return '{ ' + ', '.join(parts) + f' : {lean_struct(sn)} }}', ('struct', sn)
        if k == 'tuple':
            parts = [self.ex(x, env) for x in e[1]]
            return '(' + ', '.join(s for s, _ in parts) + ')', ('tuple', [t for _, t in parts])
        if k == 'range':
            lo, _ = self.ex(e[1], env, expect); hi, t = self.ex(e[2], env, expect)
            if not e[3]: raise TranslateError('half-open range constant')
            return f'({lo}, {hi})', ('range', t)
        raise TranslateError(f'expression kind {k} not supported')

    def fld(self, f):
        return 'f_' + f      # fields are prefixed: Rust allows a method and a field of the same name

    def path(self, path, env):
        if len(path) == 1:
            n = path[0]
            if n in env['vars']:
                return env['vars'][n]
            if n == 'None': return 'none', ('option', 'lit')
            q = (env['owner'] + '::' + n) if env['owner'] else n
            if q in self.it.consts: return self.use_const(q)
            if n in self.it.consts: return self.use_const(n)
            raise TranslateError(f'unknown name {n}')
        p = [env['owner'] if x == 'Self' else x for x in path]
        if p[0] in ('crate', 'super', 'dw', 'self'):     # module prefixes: resolve by the last components
            p = p[1:]
        while len(p) > 2: p = p[1:]
        q = '::'.join(p)
        if q in self.it.consts: return self.use_const(q)
        if len(p) == 2 and p[1] in self.it.consts: return self.use_const(p[1])
        if len(p) == 2 and p[0] in self.it.enums:
            return f'{lean_struct(p[0])}.{p[1]}', ('struct', p[0])
        if len(p) == 2 and p[0] in INT_TYPES and p[1] == 'MAX':
            return str(2 ** INT_TYPES[p[0]] - 1), p[0]
        raise TranslateError(f'unknown path {"::".join(path)}')

    def use_const(self, q):
        ty, e = self.it.consts[q]
        if q not in self.used_consts: self.used_consts.append(q)
        return lean_name(q), ty

    def binop(self, e, env, expect):
        op = e[1]
        if op in ('&&', '||'):
            a, _ = self.ex(e[2], env); b, _ = self.ex(e[3], env)
            return f'({a} {op} {b})', 'bool'
        # literal mask operand of &
        if op == '&':
            for x, y in ((e[2], e[3]), (e[3], e[2])):
                v = self.literal_value(y, env)
                if v is not None:
                    s, t = self.ex(x, env, expect)
                    if t == 'lit':
                        _, t2 = self.ex(y, env, expect); t = t2
                    return f'({s} &&& {self.mask_expr(v)})', t
        a, ta = self.ex(e[2], env, expect)
        b, tb = self.ex(e[3], env, ta if ta in INT_TYPES else expect)
        if ta == 'lit' and tb in INT_TYPES and op not in ('<<', '>>'):
            a, ta = self.ex(e[2], env, tb)
            ta = tb
        t = ta if ta != 'lit' else tb
        if ta in SINT_TYPES or tb in SINT_TYPES: raise TranslateError('arithmetic / comparison on a signed integer')
        if op in ('==', '!='):
            if ta == 'bool' or (isinstance(ta, tuple) and ta[0] == 'struct'):
                return f'({a} {op} {b})', 'bool'
            return f'({a} {op} {b})', 'bool'
        if op in ('<', '>', '<=', '>='):
            return f'(decide ({a} {op} {b}))', 'bool'
        lop = {'&': '&&&', '|': '|||', '^': '^^^', '>>': '>>>', '<<': '<<<', '+': '+', '-': '-', '*': '*', '/': '/', '%': '%'}[op]
        if op in ('&', '|', '^', '/', '%'):
            return f'({a} {lop} {b})', t
        if op == '-':
            w = self.width(t)
            if w is None: raise TranslateError('subtraction of unknown width')
            return f'(({a} + 2^{w} - {b}) % 2^{w})', t
        if op in ('<<', '>>'):
            # the result has the type of the LEFT operand; release profile: the shift amount is taken modulo the width
            if ta == 'lit':
                ta = expect if expect in INT_TYPES else env.get('shift_hint')
                if ta not in INT_TYPES: raise TranslateError('cannot infer the width of a shifted literal: ' + a)
            w = self.width(ta)
            amt = self.literal_value(e[3], env)
            sh = b if (amt is not None and amt < w) else f'({b} % {w})'
            if op == '>>': return f'({a} >>> {sh})', ta
            return f'(({a} <<< {sh}) % 2^{w})', ta
        return self.wrap(f'{a} {lop} {b}', t), t

    def index(self, e, env):
        s, t = self.ex(e[1], env)
        idx = e[2]
        if isinstance(t, tuple) and t[0] in ('vec', 'slice') and t[1] in INT_TYPES and idx[0] != 'range':
            i, _ = self.ex(idx, env, 'usize')
            self.notes.append('index into a Vec: out-of-range is a panic site of the source (model: PanicSite)')
            return f'({s}.getD {i} 0)', t[1]
        if t != 'bytes': raise TranslateError(f'indexing {t}')
        if idx[0] == 'range':
            lo = '0' if idx[1] is None else self.ex(idx[1], env, 'usize')[0]
            if idx[2] is None:
                return f'({s}.drop {lo})', 'bytes'
            hi = self.ex(idx[2], env, 'usize')[0]
            n = f'({hi} + 1 - {lo})' if idx[3] else f'({hi} - {lo})'
            if idx[1] is None and not idx[3]: n = hi
            return f'(Rs.slice {s} {lo} {n})', 'bytes'
        i, _ = self.ex(idx, env, 'usize')
        return f'(bAt {s} {i})', 'u8'

    def str_lit(self, text, args, env):
        """abstract value of a format string: literal text decides non-emptiness, [E<n>] codes are kept;
        `{name}` / `{}` placeholders of *string* type are appended (their abstract value)"""
        codes = [int(x) for x in re.findall(r'\[E(\d+)\]', text)]
        lit_text = re.sub(r'\{[^{}]*\}', '', text)
        s = f'(Rs.Str.lit {"true" if lit_text != "" else "false"} {codes})'
        # string-typed placeholders
        names = re.findall(r'\{([A-Za-z_][A-Za-z0-9_]*)?(?::[^{}]*)?\}', text)
        pos = 0
        for n in names:
            if n:
                if n in env['vars'] and env['vars'][n][1] in ('string', 'strings'):
                    s = f'({s}.app {env["vars"][n][0]})'
            else:
                if pos < len(args):
                    try:
                        a, ta = self.ex(args[pos], env)
                        if ta in ('string', 'strings'): s = f'({s}.app {a})'
                    except TranslateError:
                        pass
                pos += 1
        return s

    def macro_args(self, toks):
        p = P(list(toks) + [('op', ')')])
        a = []
        while not p.at(')'):
            a.append(p.expr())
            if not p.eat(','): break
        return a

    def fmt_macro(self, toks, env):
        a = self.macro_args(toks)
        if not a or a[0][0] != 'str': raise TranslateError('format! without literal')
        return self.str_lit(a[0][1], a[1:], env)

    def call(self, e, env, expect):
        path, args = e[1], e[2]
        p = [env['owner'] if x == 'Self' else x for x in path]
        last = p[-1]
        if last in ('Ok', 'Err', 'Some') and len(p) == 1:
            if last == 'Some':
                s, t = self.ex(args[0], env); return f'(some {s})', ('option', t)
            fr = env.get('fnret')
            if self.err_is_value(fr):
                if last == 'Ok':
                    s, t = self.ex(args[0], env); return f'(Rs.ResV.ok {s})', fr
                s, t = self.ex(args[0], env, fr[2] if isinstance(fr[2], str) else None)
                return f'(Rs.ResV.err {s})', fr
            if last == 'Ok':
                s, t = self.ex(args[0], env); return f'(Rs.Res.ok {s})', ('result', t, 'string')
            s, t = self.ex(args[0], env)
            if t not in ('string', 'strings'): raise TranslateError(f'Err of {t}')
            return f'(Rs.Res.err {s})', ('result', 'lit', 'string')
        if len(p) == 1 and last == 'rs_list_push' and len(args) == 2:
            l, tl = self.ex(args[0], env); x, _ = self.ex(args[1], env, tl[1] if isinstance(tl, tuple) else None)
            return f'({l} ++ [{x}])', tl
        if len(p) == 1 and last == 'rs_stat' and len(args) == 3 and args[1][0] == 'path':
            # a statistics message of the reader (`InputStatType::Kind(value)`) appended to the channel-as-value
            o, to = self.ex(args[0], env); v, _ = self.ex(args[2], env)
            if to != ('struct', 'RsStats'): raise TranslateError('rs_stat: first argument')
            return f'({o} ++ [Rs.Stat.mk "{args[1][1][-1]}" {v}])', to
        if len(p) == 1 and last == 'rs_fsm_initial' and not args:
            return 'SrcFsm.initial', ('struct', 'RsFsm')          # `reset_fsm()`: the machine's initial state as extracted by src2lean.py
        if len(p) == 1 and last == 'rs_check_fold' and len(args) == 2:
            # `chunks.for_each(|w| v.check(&w[..10]))`: a left fold of `check` over the chunks, each cut to its first 10 bytes
            v, tv = self.ex(args[0], env); it, tit = self.ex(args[1], env)
            if tv != ('struct', 'CdpRunningValidator') or tit not in ('chunks', ('vec', 'bytes')): raise TranslateError(f'rs_check_fold: argument types {tv} {tit}')
            if 'CdpRunningValidator::check' not in self.wanted_fns: self.wanted_fns.append('CdpRunningValidator::check')
            return f'(List.foldl (fun v w => (CdpRunningValidator.check v (w.take 10)).2) {v} {it})', tv
        if len(p) == 1 and last == 'rs_fsm_step' and len(args) == 2:
            # `ItsPayloadFsmContinuous::advance` as translated by tools/src2lean.py (Spec/FsmSrcGen.lean, C09), its answer split back into
            # the `Result<ItsPayloadWord, AmbigiousError>` of the source by the spec's `lean_prelude` function `classResult`
            st, tst = self.ex(args[0], env); w, tw = self.ex(args[1], env)
            if tst != ('struct', 'RsFsm') or tw != 'bytes': raise TranslateError('rs_fsm_step: argument types')
            rt = ('result', ('struct', 'ItsPayloadWord'), ('struct', 'AmbigiousError'))
            return (f'(let r := SrcFsm.step {st} (bAt {w} 9) (SrcWords.tdh_no_data {w}) (SrcWords.tdt_packet_done {w}); (r.1, classResult r.2))',
                    ('tuple', [('struct', 'RsFsm'), rt]))
        if len(p) == 1 and last == 'rs_report_noword' and len(args) == 3:
            o, to = self.ex(args[0], env); ps, _ = self.ex(args[1], env); m, tm = self.ex(args[2], env)
            if to != ('struct', 'RsReports') or tm != 'string': raise TranslateError(f'{last}: argument types {to} {tm}')
            return f'({o} ++ [Rs.Report.mk {ps} {m} [] false false])', ('struct', 'RsReports')
        if len(p) == 1 and last in ('rs_report', 'rs_report_each') and len(args) == 4:
            # the error channel as a value: `report_error(pos, msg, word)` appends one report (`_each`: one per message of a Vec<String>)
            o, to = self.ex(args[0], env); ps, _ = self.ex(args[1], env); m, tm = self.ex(args[2], env); w, tw = self.ex(args[3], env)
            if to != ('struct', 'RsReports') or tm not in ('string', 'strings') or tw != 'bytes': raise TranslateError(f'{last}: argument types {to} {tm} {tw}')
            return f'({o} ++ [Rs.Report.mk {ps} {m} {w} {"true" if last.endswith("each") else "false"} true])', ('struct', 'RsReports')
        if p[-2:] == ['String', 'new'] or p[-2:] == ['Vec', 'new']:
            return 'Rs.Str.empty', 'string'
        if p[-2:] == ['String', 'from']:
            return self.ex(args[0], env)
        if len(p) >= 2 and p[-2] == 'LittleEndian' and last.startswith('read_u'):
            w = int(last[6:]); a = args[0]
            while a[0] in ('ref', 'paren'): a = a[1]
            if a[0] != 'index' or a[2][0] != 'range' or not a[2][3]: raise TranslateError('LittleEndian::read of a non-slice')
            s, _ = self.ex(a[1], env)
            lo = self.literal_value(a[2][1], env); hi = self.literal_value(a[2][2], env)
            if lo is None or hi is None or hi + 1 - lo != w // 8: raise TranslateError('LittleEndian::read width mismatch')
            return f'(leField {s} {lo} {w // 8})', 'u' + str(w)
        if len(p) == 2 and p[0] in INT_TYPES and last == 'from_le_bytes':
            a = args[0]
            if a[0] != 'array' or len(a[1]) * 8 != INT_TYPES[p[0]]: raise TranslateError('from_le_bytes shape')
            parts = [self.ex(x, env, 'u8')[0] for x in a[1]]
            return '(' + ' + '.join(f'{s} * {256 ** i}' for i, s in enumerate(parts)) + ')', p[0]
        # user function
        while len(p) > 2: p = p[1:]
        for q in ('::'.join(p), p[-1], (env['owner'] + '::' + p[-1]) if env['owner'] else None):
            if q and q in self.it.fns:
                return self.user_call(q, None, args, env)
        if len(p) == 1 and p[0] in self.it.structs and len(self.it.structs[p[0]]) == len(args):     # tuple struct constructor
            parts = [self.ex(a, env, ft)[0] for a, (_, ft) in zip(args, self.it.structs[p[0]])]
            return '{ ' + ', '.join(f'{self.fld(f)} := {s}' for (f, _), s in zip(self.it.structs[p[0]], parts)) + f' : {lean_struct(p[0])} }}', ('struct', p[0])
        raise TranslateError(f'call of unknown function {"::".join(path)}')

    def user_call(self, q, recv, args, env):
        f = self.it.fns[q]
        if q not in self.wanted_fns: self.wanted_fns.append(q)
        parts = []
        if f['selfkind']:
            if recv is None: raise TranslateError(f'{q} needs a receiver')
            parts.append(recv)
        if len(args) != len(f['params']): raise TranslateError(f'arity of {q}')
        for a, (_, pt) in zip(args, f['params']):
            s, _ = self.ex(a, env, pt if isinstance(pt, str) else None)
            parts.append(s)
        ret = f['ret']
        if isinstance(ret, tuple) and ret == ('struct', 'Self'): ret = ('struct', f['owner'])
        if isinstance(ret, tuple) and ret[0] in ('result', 'option') and ret[1] == ('struct', 'Self'):
            ret = (ret[0], ('struct', f['owner'])) + tuple(ret[2:])
        if f['selfkind'] == 'mut':
            ret = ('tuple', [ret, ('struct', f['owner'])])
        if f.get('mutparams'):
            pt = dict(f['params'])[f['mutparams'][0]]
            ret = pt if ret == 'unit' else ('tuple', [ret, pt])
        return '(' + ' '.join([lean_name(q)] + [f'({s})' for s in parts]) + ')', ret

    def range_lit(self, e, env):
        """(lo, hi) when `e` names a `RangeInclusive` constant with literal bounds (inlined: keeps the arithmetic closed)"""
        while e[0] in ('paren', 'ref', 'deref'): e = e[1]
        if e[0] != 'path': return None
        p = [env['owner'] if x == 'Self' else x for x in e[1]]
        for q in ('::'.join(p[-2:]), p[-1]):
            if q in self.it.consts:
                ty, ce = self.it.consts[q]
                if ce is not None and ce[0] == 'range' and ce[3] and ce[1][0] == 'lit' and ce[2][0] == 'lit':
                    return ce[1][1], ce[2][1], ty[1]
        return None

    def opaque_chain(self, e, env):
        """`cfg.a().b()` on a parameter of an opaque (trait-object) type: the abstract field the spec assigns to that chain"""
        if not OPAQUE: return None
        parts, x = [], e
        while x[0] == 'mcall' and not x[3]:
            parts.append(x[2] + '()'); x = x[1]
        while x[0] in ('paren', 'ref', 'deref'): x = x[1]
        if x[0] != 'path' or len(x[1]) != 1 or x[1][0] not in env['vars'] or env['vars'][x[1][0]][1] != 'opaque': return None
        key = '.'.join(reversed(parts))
        if key not in OPAQUE['chains']:
            raise TranslateError(f'method chain {key} on an opaque parameter is not described in the spec')
        rty, field = OPAQUE['chains'][key]
        t = P(tokenize(rty)).ty()
        return f'{env["vars"][x[1][0]][0]}.{field}', t

    def mcall(self, e, env, expect):
        recv, name, args = e[1], e[2], e[3]
        oc = self.opaque_chain(e, env)
        if oc is not None: return oc
        if name == 'unwrap' and recv[0] == 'call' and recv[1][-1] == 'load' and len(recv[2]) == 1:
            a = recv[2][0]
            while a[0] in ('ref', 'paren'): a = a[1]
            if a[0] == 'mcall' and a[2] == 'to_byte_slice':
                # a copy made by serialising and re-loading the header: the value itself (round trip = C03 `encode_decode`)
                self.notes.append('clone through to_byte_slice/load treated as the identity')
                return self.ex(a[1], env, expect)
        rr = recv
        while rr[0] in ('paren', 'ref'): rr = rr[1]
        if rr[0] == 'range' and name == 'contains' and rr[1] is not None and rr[2] is not None:
            lo, tl = self.ex(rr[1], env); hi, th = self.ex(rr[2], env)
            a, _ = self.ex(args[0], env, tl if tl in INT_TYPES else (th if th in INT_TYPES else None))
            return f'(decide ({lo} ≤ {a}) && decide ({a} {"≤" if rr[3] else "<"} {hi}))', 'bool'
        rl = self.range_lit(recv, env)
        if rl is not None and name in ('contains', 'start', 'end'):
            lo, hi, et = rl
            if name == 'contains':
                a, _ = self.ex(args[0], env, et); return f'(decide ({lo} ≤ {a}) && decide ({a} ≤ {hi}))', 'bool'
            return (str(lo) if name == 'start' else str(hi)), et
        # iterator / builtin chains are handled on the typed receiver
        s, t = self.ex(recv, env)
        if isinstance(t, tuple) and t[0] == 'struct':
            sn = env['owner'] if t[1] == 'Self' else t[1]
            q = sn + '::' + name
            if q in self.it.fns: return self.user_call(q, s, args, env)
            raise TranslateError(f'unknown method {q}')
        if t in INT_TYPES:
            w = INT_TYPES[t]
            if name in ('wrapping_add', 'wrapping_sub', 'wrapping_mul', 'checked_add', 'checked_sub', 'saturating_sub', 'saturating_add', 'min', 'max'):
                a, _ = self.ex(args[0], env, t)
                if name == 'wrapping_add': return f'(({s} + {a}) % 2^{w})', t
                if name == 'wrapping_sub': return f'(({s} + 2^{w} - {a}) % 2^{w})', t
                if name == 'wrapping_mul': return f'(({s} * {a}) % 2^{w})', t
                if name == 'checked_add': return f'(if {s} + {a} < 2^{w} then some ({s} + {a}) else none)', ('option', t)
                if name == 'checked_sub': return f'(if {a} ≤ {s} then some ({s} - {a}) else none)', ('option', t)
                if name == 'saturating_sub': return f'({s} - {a})', t
                if name == 'saturating_add': return f'(min ({s} + {a}) (2^{w} - 1))', t
                if name == 'min': return f'(min {s} {a})', t
                if name == 'max': return f'(max {s} {a})', t
        if t == 'bytes':
            if name in ('iter', 'into_iter', 'collect', 'as_slice', 'to_vec', 'copied', 'cloned'): return s, 'bytes'
            if name == 'rev': return f'({s}.reverse)', 'bytes'
            if name == 'len' or name == 'count': return f'({s}.length)', 'usize'
            if name == 'is_empty': return f'({s}.isEmpty)', 'bool'
            if name in ('skip',): return f'({s}.drop {self.ex(args[0], env, "usize")[0]})', 'bytes'
            if name in ('take',): return f'({s}.take {self.ex(args[0], env, "usize")[0]})', 'bytes'
            if name in ('take_while', 'any', 'all'):
                cl = args[0]
                if cl[0] != 'closure' or len(cl[1]) != 1: raise TranslateError('closure expected')
                pn = cl[1][0][1]
                env2 = self.fork(env); env2['vars'][pn] = (f'{pn}.toNat', 'u8')
                body, bt = self.ex(cl[2], env2)
                fn = {'take_while': 'takeWhile', 'any': 'any', 'all': 'all'}[name]
                return f'({s}.{fn} (fun {pn} => {body}))', ('bytes' if name == 'take_while' else 'bool')
            if name == 'chunks_exact':
                return f'(Rs.chunksExact {self.ex(args[0], env, "usize")[0]} {s})', 'chunks'
        if isinstance(t, tuple) and t[0] in ('vec', 'slice'):
            et = t[1]
            if name in ('iter', 'into_iter', 'collect', 'collect_vec', 'as_slice', 'to_vec', 'copied', 'cloned'): return s, t
            if name in ('len', 'count'): return f'({s}.length)', 'usize'
            if name == 'is_empty': return f'({s}.isEmpty)', 'bool'
            if name == 'contains':
                a, _ = self.ex(args[0], env)
                return f'({s}.contains {a})', 'bool'
            if name == 'map':
                cl = args[0]
                if cl[0] != 'closure' or len(cl[1]) != 1: raise TranslateError('closure expected')
                pn = cl[1][0][1]
                env2 = self.fork(env); env2['vars'][pn] = (pn, et)
                body, bt = self.ex(cl[2], env2)
                return f'({s}.map (fun {pn} => {body}))', ('vec', bt)
        if t == 'chunks':
            if name == 'count': return f'({s}.length)', 'usize'
        if t in ('string', 'strings'):
            if name == 'is_empty': return f'(!{s}.nonEmpty)', 'bool'
            if name in ('to_owned', 'into', 'to_string', 'clone', 'as_str'): return s, t
        if isinstance(t, tuple) and t[0] == 'range':
            if name == 'contains':
                a, _ = self.ex(args[0], env, t[1]); return f'(decide ({s}.1 ≤ {a}) && decide ({a} ≤ {s}.2))', 'bool'
            if name == 'start': return f'{s}.1', t[1]
            if name == 'end': return f'{s}.2', t[1]
        if isinstance(t, tuple) and t[0] == 'option':
            if name == 'is_none': return f'({s}.isNone)', 'bool'
            if name == 'is_some': return f'({s}.isSome)', 'bool'
            if name in ('unwrap', 'expect'): return f'(Rs.unwrapD {s})', t[1]
            if name in ('as_ref', 'as_mut', 'clone', 'copied'): return s, t
            if name == 'is_some_and':
                cl = args[0]
                if cl[0] != 'closure' or len(cl[1]) != 1: raise TranslateError('closure expected')
                pn = cl[1][0][1]
                env2 = self.fork(env); env2['vars'][pn] = (pn, t[1])
                body, _ = self.ex(cl[2], env2)
                return f'(match {s} with | some {pn} => {body} | none => false)', 'bool'
        if isinstance(t, tuple) and t[0] == 'result':
            if name == 'is_err': return f'({s}).isErr', 'bool'
            if name == 'rs_ok_val' and self.err_is_value(t): return f'(Rs.ResV.okVal {s})', t[1]
            if name == 'rs_ok_val': return f'(Rs.Res.unwrapD {s})', t[1]
            if name == 'rs_err_val' and not self.err_is_value(t): return f'({s}).errStr', 'string'
            if name == 'rs_err_val' and self.err_is_value(t): return f'(Rs.ResV.errVal {s})', t[2]
            if name == 'is_ok': return f'(!({s}).isErr)', 'bool'
            if name in ('unwrap', 'expect') and not self.err_is_value(t):
                # `Result::unwrap`: the `Err` case is a panic site; the tie has to show it unreachable (or model it)
                rt = ('struct', env['owner']) if t[1] == ('struct', 'Self') else t[1]
                return f'(Rs.Res.unwrapD {s})', rt
        raise TranslateError(f'method .{name}() on {t} not supported')

    def fork(self, env):
        return dict(env, vars=dict(env['vars']), consts=dict(env['consts']))

    def if_expr(self, e, env, expect):
        cond, then, els = e[1], e[2], e[3]
        if els is None: raise TranslateError('if without else in expression position')
        c = self.cond(cond, env)
        a, ta = self.block_value(then, self.fork(c[1]), expect)
        b, tb = self.block_value(els, self.fork(env), expect)
        return f'(if {c[0]} then {a} else {b})', (ta if ta != 'lit' else tb)

    def cond(self, cond, env):
        """returns (lean condition, env for the then-branch)"""
        if cond[0] == 'iflet':
            pat, scrut = cond[1], cond[2]
            s, t = self.ex(scrut, env)
            if pat[0] == 'pctor' and pat[1] == ['Err'] and pat[2][0][0] in ('pbind', 'pwild'):
                env2 = self.fork(env)
                if pat[2][0][0] == 'pbind':
                    env2['vars'][pat[2][0][1]] = (f'({s}).errVal', t[2]) if self.err_is_value(t) else (f'({s}).errStr', 'string')
                return f'({s}).isErr', env2
            if pat[0] == 'pctor' and pat[1] == ['Some'] and pat[2][0][0] == 'pbind' and isinstance(t, tuple) and t[0] == 'option':
                env2 = self.fork(env); env2['vars'][pat[2][0][1]] = (f'(Rs.unwrapD {s})', t[1])
                return f'({s}).isSome', env2
            raise TranslateError('if let pattern not supported')
        s, t = self.ex(cond, env)
        if t != 'bool': raise TranslateError('non-bool condition')
        return s, env

    def match_expr(self, e, env, expect):
        s, t = self.ex(e[1], env)
        arms = e[2]
        if isinstance(t, tuple) and t[0] == 'struct' and t[1] in self.it.enums:
            out = []; rt = 'lit'
            for pat, guard, body in arms:
                if guard: raise TranslateError('match guard on enum')
                en = lean_struct(t[1])
                env2 = self.fork(env)
                if pat[0] == 'ppath': lp = '.' + pat[1][-1]
                elif pat[0] == 'pwild': lp = '_'
                elif pat[0] == 'por' and all(x[0] == 'ppath' for x in pat[1]): lp = ' | '.join(en + '.' + x[1][-1] for x in pat[1])
                elif pat[0] == 'pctor':
                    # `Enum::Variant(a, b)`: the variant's payload types give the types of the bound names
                    pl = dict(self.it.enums[t[1]]).get(pat[1][-1])
                    if pl is None or len(pl) != len(pat[2]) or pl == ['struct-like']: raise TranslateError('enum constructor pattern')
                    ns = []
                    for sp, pty in zip(pat[2], pl):
                        if sp[0] == 'pbind':
                            env2['vars'][sp[1]] = (sp[1], pty); ns.append(sp[1])
                        elif sp[0] == 'pwild': ns.append('_')
                        else: raise TranslateError('pattern inside an enum constructor')
                    lp = '.' + pat[1][-1] + ''.join(' ' + n for n in ns)
                else: raise TranslateError('enum pattern')
                b, bt = self.ex(body, env2, expect)
                if bt != 'lit': rt = bt
                out.append(f'| {lp} => {b}')
            return f'(match {s} with ' + ' '.join(out) + ')', rt
        if isinstance(t, tuple) and t[0] == 'option':
            it = t[1]
            en = lean_struct(it[1]) if isinstance(it, tuple) and it[0] == 'struct' and it[1] in self.it.enums else None
            out = []; rt = 'lit'
            for pat, guard, body in arms:
                if guard: raise TranslateError('match guard on Option')
                env2 = self.fork(env)
                if pat[0] == 'ppath' and pat[1] == ['None']: lp = 'none'
                elif pat[0] == 'pwild': lp = '_'
                elif pat[0] == 'pctor' and pat[1] == ['Some'] and len(pat[2]) == 1:
                    sp = pat[2][0]
                    if sp[0] == 'pbind':
                        env2['vars'][sp[1]] = (sp[1], it); lp = f'some {sp[1]}'
                    elif sp[0] == 'pwild': lp = 'some _'
                    elif en and sp[0] == 'ppath': lp = f'some {en}.{sp[1][-1]}'
                    elif en and sp[0] == 'por' and all(x[0] == 'ppath' for x in sp[1]): lp = ' | '.join(f'some {en}.{x[1][-1]}' for x in sp[1])
                    else: raise TranslateError('pattern inside Some(..)')
                else: raise TranslateError('Option pattern')
                b, bt = self.ex(body, env2, expect)
                if bt != 'lit': rt = bt
                out.append(f'| {lp} => {b}')
            return f'(match {s} with ' + ' '.join(out) + ')', rt
        if t in INT_TYPES:
            # if-chain, first match wins
            res = None; rt = 'lit'; chain = []
            for pat, guard, body in arms:
                c = self.int_pat(pat, s, env)
                if guard:
                    g, _ = self.ex(guard, env); c = f'({c} && {g})' if c != 'true' else g
                b, bt = self.ex(body, self.fork(env), expect)
                if bt != 'lit': rt = bt
                chain.append((c, b))
            if chain[-1][0] != 'true': raise TranslateError('integer match without catch-all')
            res = chain[-1][1]
            for c, b in reversed(chain[:-1]): res = f'(if {c} then {b} else {res})'
            return res, rt
        raise TranslateError(f'match on {t}')

    def int_pat(self, pat, s, env):
        if pat[0] == 'pwild' or pat[0] == 'pbind': return 'true'
        if pat[0] == 'plit': return f'({s} == {pat[1]})'
        if pat[0] == 'ppath':
            v, _ = self.path(pat[1], env); return f'({s} == {v})'
        if pat[0] == 'prange':
            lo = pat[1][1] if pat[1][0] == 'plit' else self.path(pat[1][1], env)[0]
            hi = pat[2][1] if pat[2][0] == 'plit' else self.path(pat[2][1], env)[0]
            return f'(decide ({lo} ≤ {s}) && decide ({s} ≤ {hi}))'
        if pat[0] == 'por': return '(' + ' || '.join(self.int_pat(p, s, env) for p in pat[1]) + ')'
        raise TranslateError('integer pattern')

    # ---- statements (continuation style)
    def block_value(self, stmts, env, expect=None):
        return self.stmts(list(stmts), env, expect)

    def assigned(self, stmts, env=None):
        """variables assigned (not declared) in a statement list, and whether it contains a return"""
        vs, ret = [], False
        declared = set()
        def walk_e(e):
            nonlocal ret
            if not isinstance(e, tuple): return
            if e[0] == 'return': ret = True
            if e[0] == 'try': ret = True
            if e[0] == 'if':
                walk(e[2]);
                if e[3]: walk(e[3])
                return
            if e[0] == 'block': walk(e[1]); return
            if e[0] == 'match':
                for _, _, b in e[2]:
                    if b[0] == 'block': walk(b[1])
                    else: walk([('expr', b, True)])
                return
            if e[0] == 'macro' and e[1] in ('write', 'writeln'):
                n = e[2][0][1]
                if n not in declared and n not in vs: vs.append(n)
                return
            if e[0] == 'mcall' and e[2] in ('push_str', 'push', 'insert_str') and e[1][0] == 'path' and len(e[1][1]) == 1:
                n = e[1][1][0]
                if n not in declared and n not in vs: vs.append(n)
            if e[0] == 'mcall' and e[2] == 'unwrap': walk_e(e[1]); return
            for x in e[1:]:
                if isinstance(x, tuple): walk_e(x)
                elif isinstance(x, list):
                    for y in x:
                        if isinstance(y, tuple): walk_e(y)
        def walk(ss):
            for st in ss:
                if st[0] == 'let':
                    walk_e(st[3])
                    if st[1][0] == 'pbind': declared.add(st[1][1])
                elif st[0] == 'assign':
                    tgt = st[1]
                    while tgt[0] in ('field', 'tfield'): tgt = tgt[1]
                    if tgt[0] == 'path' and len(tgt[1]) == 1:
                        n = tgt[1][0]
                        if n not in declared and n not in vs: vs.append(n)
                    walk_e(st[3])
                else:
                    e = st[1]
                    if env is not None and e[0] in ('call', 'mcall'):
                        q = self.callee_of(e, env)
                        if q and self.it.fns[q].get('mutparams'):
                            f = self.it.fns[q]
                            k = [n for n, _ in f['params']].index(f['mutparams'][0])
                            place = (e[2] if e[0] == 'call' else e[3])[k]
                            while place[0] in ('ref', 'paren', 'field', 'tfield'): place = place[1]
                            if place[0] == 'path' and len(place[1]) == 1 and place[1][0] not in declared and place[1][0] not in vs:
                                vs.append(place[1][0])
                        if q and self.it.fns[q]['selfkind'] == 'mut' and e[0] == 'mcall':
                            place = e[1]
                            while place[0] in ('ref', 'paren', 'field', 'tfield'): place = place[1]
                            if place[0] == 'path' and len(place[1]) == 1 and place[1][0] not in declared and place[1][0] not in vs:
                                vs.append(place[1][0])
                    walk_e(e)
        walk(stmts)
        return vs, ret

    def stmts(self, ss, env, expect):
        """translate a statement list whose value is the value of the function/block; returns (lean, type)"""
        if not ss:
            return '()', 'unit'
        st, rest = ss[0], ss[1:]
        pre = self.prepass(st, env)
        if pre is not None:
            return self.stmts(pre + rest, env, expect)
        if st[0] == 'let':
            pat, ty, e = st[1], st[2], st[3]
            if e[0] == 'try':
                s, t = self.ex(e[1], env)
                if not (isinstance(t, tuple) and t[0] == 'result'): raise TranslateError('? on non-result')
                if pat[0] != 'pbind': raise TranslateError('let pattern with ?')
                env2 = self.fork(env); v = self.fresh(pat[1], env2); env2['vars'][pat[1]] = (v, t[1])
                r, rt = self.stmts(rest, env2, expect)
                return f'(match {s} with | .err e => .err e | .ok {v} => {r})', rt
            if pat[0] == 'pbind':
                lv = self.literal_value(e, env)
                hint = ty if isinstance(ty, str) else self.infer_from_use(pat[1], rest, env)
                s, t = self.ex(e, dict(env, shift_hint=hint), ty if isinstance(ty, str) else None)
                if ty is not None and (t == 'lit' or ty in INT_TYPES): t = ty
                env2 = self.fork(env); v = self.fresh(pat[1], env2); env2['vars'][pat[1]] = (v, t)
                if lv is not None: env2['consts'][pat[1]] = lv
                r, rt = self.stmts(rest, env2, expect)
                return f'(let {v} := {s}; {r})', rt
            if pat[0] == 'pwild':
                return self.stmts(rest, env, expect)
            if pat[0] == 'ptuple':
                s, t = self.ex(e, env)
                if not (isinstance(t, tuple) and t[0] in ('tuple', 'range') and (t[0] == 'range' or len(t[1]) == len(pat[1]))):
                    raise TranslateError('destructuring a non-tuple')
                env2 = self.fork(env); names = []
                for i, n in enumerate(pat[1]):
                    v = self.fresh(n, env2); env2['vars'][n] = (v, t[1][i] if t[0] == 'tuple' else t[1]); names.append(v)
                r, rt = self.stmts(rest, env2, expect)
                return f'(let ({", ".join(names)}) := {s}; {r})', rt
            raise TranslateError('let pattern')
        if st[0] == 'assign':
            tgt, op, e = st[1], st[2], st[3]
            if op != '=':
                e = ('bin', op[:-1], tgt, e)
            return self.assign(tgt, e, rest, env, expect)
        # expression statement
        e, is_tail = st[1], st[2]
        if e[0] == 'macro':
            if e[1] in LOGS or e[1] in ('debug_assert', 'debug_assert_eq', 'println', 'eprintln') or e[1].startswith('log'):
                return self.stmts(rest, env, expect) if rest else ('()', 'unit')
            if e[1] in ('unreachable', 'panic', 'todo', 'unimplemented'):
                raise TranslateError(e[1] + '! reached')
        if e[0] == 'if' and env.get('const_fn') and e[3] is None and len(e[2]) == 1 and e[2][0][0] == 'expr' \
                and e[2][0][1][0] == 'macro' and e[2][0][1][1] == 'panic':
            # `if c { panic!(..) }` inside a `const fn` that is only evaluated at compile time: a compile-time assertion
            return self.stmts(rest, env, expect)
        # write!(s, …).unwrap();   s.push_str(&e);   v.push(format!(…))
        w = self.string_update(e, env)
        if w is not None:
            name, val = w
            env2 = self.fork(env); v = self.fresh(name, env2); env2['vars'][name] = (v, 'string')
            r, rt = self.stmts(rest, env2, expect)
            return f'(let {v} := {val}; {r})', rt
        if e[0] == 'return':
            if e[1] is None: return '()', 'unit'
            return self.ex(e[1], env, expect)
        if e[0] == 'if':
            return self.if_stmt(e, rest, env, expect, is_tail)
        if e[0] == 'mcall' and e[2] == 'push' and len(e[3]) == 1 and self.list_place(e[1], env):
            # `v.push(x)` on a Vec of integers: `v = v ++ [x]`
            return self.stmts([('assign', e[1], '=', ('call', ['rs_list_push'], [e[1], e[3][0]]))] + list(rest), env, expect)
        if e[0] == 'match' and len(e[2]) == 2 and not e[2][0][1] and not e[2][1][1] and \
                sorted((a[0][0], tuple(a[0][1])) for a in e[2]) == [('pctor', ('Some',)), ('ppath', ('None',))]:
            # `match o { Some(x) => A, None => B }` in statement position: `if let Some(x) = o { A } else { B }`
            arms = {a[0][0]: a for a in e[2]}
            def blk2(b): return list(b[1]) if b[0] == 'block' else [('expr', b, True)]
            return self.stmts([('expr', ('if', ('iflet', arms['pctor'][0], e[1]), blk2(arms['pctor'][2]), blk2(arms['ppath'][2])), is_tail)] + list(rest), env, expect)
        if e[0] == 'match' and len(e[2]) == 2 and all(a[0][0] == 'pctor' and len(a[0][2]) == 1 and a[0][2][0][0] == 'pbind' and not a[1] for a in e[2]) \
                and sorted(a[0][1][-1] for a in e[2]) == ['Err', 'Ok']:
            # `match r { Ok(x) => A, Err(y) => B }` on a `Result` whose error is a plain value: `let t = r; if t.is_err() {let y = ..; B} else {let x = ..; A}`
            self.tmpn = getattr(self, 'tmpn', 0) + 1; t = f'm_{self.tmpn}'
            arms = {a[0][1][-1]: a for a in e[2]}
            def blk(b): return list(b[1]) if b[0] == 'block' else [('expr', b, True)]
            okb = [('let', arms['Ok'][0][2][0], None, ('mcall', ('path', [t]), 'rs_ok_val', []))] + blk(arms['Ok'][2])
            erb = [('let', arms['Err'][0][2][0], None, ('mcall', ('path', [t]), 'rs_err_val', []))] + blk(arms['Err'][2])
            return self.stmts([('let', ('pbind', t), None, e[1]), ('expr', ('if', ('mcall', ('path', [t]), 'is_err', []), erb, okb), is_tail)] + list(rest), env, expect)
        if e[0] == 'match':
            d = self.match_as_ifs(e, env)
            if d is not None and not rest and self.scrut_is_enum(e, env) and not self.assigned([('expr', e, True)], env)[0]:
                d = None            # value position, nothing assigned: keep it a `match`
            if d is not None and d[0] == 'block':
                if rest and any(x[0] == 'let' for x in d[1]): raise TranslateError('single-arm match whose body declares variables')
                return self.stmts(list(d[1]) + list(rest), env, expect)
            if d is not None:
                return self.if_stmt(d, rest, env, expect, is_tail)
        if e[0] == 'match' and not rest:
            return self.ex(e, env, expect)
        if e[0] == 'block' and not rest:
            return self.stmts(e[1], self.fork(env), expect)
        if not rest:
            return self.ex(e, env, expect)
        if e[0] == 'mcall' and e[2] == 'unwrap':       # ignored results
            return self.stmts(rest, env, expect)
        if e[0] in ('tfield', 'path', 'unit', 'lit') and rest:      # a value that is not used (e.g. the () of a hoisted call)
            return self.stmts(rest, env, expect)
        raise TranslateError(f'statement not supported: {e[0]}')

    def prepass(self, st, env):
        """rewrites of one statement into several simpler ones (None = nothing to do):
           * a `?` nested inside an expression is hoisted into its own `let t = e?;` (left-to-right order kept);
           * a call of a `&mut self` method on a field / variable is split into the call, the write-back of the receiver
             and the use of the result."""
        self.tmpn = getattr(self, 'tmpn', 0)
        new_lets = []

        def hoist(e, top):
            if not isinstance(e, tuple) or not e: return e
            k = e[0]
            if k in ('closure', 'if', 'match', 'block', 'macro', 'lit', 'str', 'path', 'raw'): return e
            if k == 'try' and not top:
                inner = hoist(e[1], False)
                self.tmpn += 1; t = f't_{self.tmpn}'
                new_lets.append(('let', ('pbind', t), None, ('try', inner)))
                return ('path', [t])
            if k == 'mcall' and e[2] == 'replace' and len(e[3]) == 1 and self.is_option(e[1], env):
                # Option::replace: the old value is returned, the place holds Some(new)
                self.tmpn += 1; t = f'old_{self.tmpn}'
                new_lets.append(('let', ('pbind', t), None, e[1]))
                new_lets.append(('assign', e[1], '=', ('call', ['Some'], [hoist(e[3][0], False)])))
                return ('path', [t])
            if k == 'mcall' and not top and self.is_mut_call(e, env):
                recv = e[1]
                self.tmpn += 1; t = f'c_{self.tmpn}'
                new_lets.append(('let', ('pbind', t), None, ('mutcall', e)))
                new_lets.append(('assign', recv, '=', ('tfield', ('path', [t]), 1)))
                return ('tfield', ('path', [t]), 0)
            out = []
            for x in e:
                if isinstance(x, tuple): out.append(hoist(x, False))
                elif isinstance(x, list):
                    ys = []
                    for y in x:
                        if k == 'structlit' and isinstance(y, tuple) and len(y) == 2 and isinstance(y[0], str) and isinstance(y[1], tuple):
                            ys.append((y[0], hoist(y[1], False)))
                        elif isinstance(y, tuple): ys.append(hoist(y, False))
                        else: ys.append(y)
                    out.append(ys)
                else: out.append(x)
            return tuple(out)

        if st[0] == 'expr' and st[1][0] in ('call', 'mcall'):
            q = self.callee_of(st[1], env)
            if q and self.it.fns[q].get('mutparams') and self.it.fns[q]['ret'] == 'unit':
                f = self.it.fns[q]
                k = [n for n, _ in f['params']].index(f['mutparams'][0])
                args = st[1][2] if st[1][0] == 'call' else st[1][3]
                place = args[k]
                while place[0] in ('ref', 'paren'): place = place[1]
                return [('assign', place, '=', ('raw_expr', st[1]))]
        if st[0] == 'let':
            e = st[3]
            if e[0] == 'mutcall': return None
            if e[0] == 'try':
                ne = ('try', hoist(e[1], False))
            else:
                ne = hoist(e, False)
            if new_lets: return new_lets + [('let', st[1], st[2], ne)]
            return None
        if st[0] == 'assign':
            ne = hoist(st[3], False)
            if new_lets: return new_lets + [('assign', st[1], st[2], ne)]
            return None
        if st[0] == 'expr':
            e = st[1]
            if e[0] == 'if' and e[1][0] == 'iflet':
                ns = hoist(e[1][2], False)
                if new_lets: return new_lets + [('expr', ('if', ('iflet', e[1][1], ns), e[2], e[3]), st[2])]
                return None
            if e[0] == 'if':
                nc = hoist(e[1], False)
                if new_lets: return new_lets + [('expr', ('if', nc, e[2], e[3]), st[2])]
                return None
            if e[0] in ('match', 'block', 'macro'): return None
            ne = hoist(e, e[0] in ('return',))
            if e[0] == 'return' and e[1] is not None:
                ne = ('return', hoist(e[1], False))
            if new_lets: return new_lets + [('expr', ne, st[2])]
        return None

    def is_option(self, e, env):
        try:
            _, t = self.ex(e, env)
        except TranslateError:
            return False
        return isinstance(t, tuple) and t[0] == 'option'

    def callee_of(self, e, env):
        """qualified name of the user function a call expression refers to (None if it is a builtin)"""
        if e[0] == 'call':
            p = [env['owner'] if x == 'Self' else x for x in e[1]]
            while len(p) > 2: p = p[1:]
            for q in ('::'.join(p), p[-1], (env['owner'] + '::' + p[-1]) if env['owner'] else None):
                if q and q in self.it.fns: return q
            return None
        try:
            _, t = self.ex(e[1], env)
        except TranslateError:
            return None
        if isinstance(t, tuple) and t[0] == 'struct':
            sn = env['owner'] if t[1] == 'Self' else t[1]
            return sn + '::' + e[2] if sn + '::' + e[2] in self.it.fns else None
        return None

    def is_mut_call(self, e, env):
        try:
            _, t = self.ex(e[1], env)
        except TranslateError:
            return False
        if isinstance(t, tuple) and t[0] == 'struct':
            sn = env['owner'] if t[1] == 'Self' else t[1]
            f = self.it.fns.get(sn + '::' + e[2])
            return bool(f and f['selfkind'] == 'mut')
        return False

    def infer_from_use(self, v, rest, env):
        """type of an un-annotated `let v = <integer literal expression>`: the type of the operand it is later combined with"""
        found = []
        def walk(x):
            if isinstance(x, tuple):
                if x and x[0] == 'bin' and x[1] in ('&', '|', '^', '+', '-', '*', '==', '!=', '<', '>', '<=', '>='):
                    for me, other in ((x[2], x[3]), (x[3], x[2])):
                        if me == ('path', [v]):
                            try:
                                _, t = self.ex(other, env)
                                if t in INT_TYPES: found.append(t)
                            except TranslateError:
                                pass
                for y in x: walk(y)
            elif isinstance(x, list):
                for y in x: walk(y)
        walk(rest)
        return found[0] if found and all(f == found[0] for f in found) else None

    def scrut_is_enum(self, e, env):
        try:
            _, t = self.ex(e[1], env)
        except TranslateError:
            return False
        return isinstance(t, tuple) and t[0] == 'struct' and t[1] in self.it.enums

    def match_as_ifs(self, e, env):
        """`match <integer> { lit => A, lit | lit => B, _ => C }` without guards, as nested `if`s (first arm that matches wins)"""
        try:
            _, t = self.ex(e[1], env)
        except TranslateError:
            return None
        is_enum = isinstance(t, tuple) and t[0] == 'struct' and t[1] in self.it.enums
        if t not in INT_TYPES and not is_enum: return None
        def cond_of(pat):
            if is_enum:
                if pat[0] == 'ppath': return ('bin', '==', e[1], ('path', pat[1]))
                if pat[0] == 'por':
                    cs = [cond_of(p) for p in pat[1]]
                    if any(c is None for c in cs): return None
                    r = cs[0]
                    for c in cs[1:]: r = ('bin', '||', r, c)
                    return r
                return None
            if pat[0] == 'plit': return ('bin', '==', e[1], ('lit', pat[1], None, str(pat[1])))
            if pat[0] == 'ppath': return ('bin', '==', e[1], ('path', pat[1]))
            if pat[0] == 'por':
                cs = [cond_of(p) for p in pat[1]]
                if any(c is None for c in cs): return None
                r = cs[0]
                for c in cs[1:]: r = ('bin', '||', r, c)
                return r
            if pat[0] == 'prange' and pat[1][0] == 'plit' and pat[2][0] == 'plit':
                return ('bin', '&&', ('bin', '>=', e[1], ('lit', pat[1][1], None, '')), ('bin', '<=', e[1], ('lit', pat[2][1], None, '')))
            return None
        arms = e[2]
        if not arms or any(g for _, g, _ in arms): return None
        # integers need a catch-all; a match on an enum is exhaustive (rustc checks it), its last arm is the `else`
        if not is_enum and arms[-1][0][0] not in ('pwild', 'pbind'): return None
        def blk(b): return b[1] if b[0] == 'block' else [('expr', b, True)]
        res = blk(arms[-1][2])
        if arms[-1][0][0] == 'pbind':          # `name => …`: the catch-all binds the scrutinee
            res = [('let', ('pbind', arms[-1][0][1]), None, e[1])] + list(res)
        for pat, _, body in reversed(arms[:-1]):
            c = cond_of(pat)
            if c is None: return None
            res = [('expr', ('if', c, blk(body), res), True)]
        if len(arms) == 1:                       # a single (exhaustive) arm: just its body
            return ('block', res)
        return res[0][1]

    def fresh(self, name, env):
        env['n'] = env.get('n', 0) + 1
        base = name if name != 'self' else 'self_'
        return base if base not in [v[0] for v in env['vars'].values()] else f'{base}_{env["n"]}'

    def string_update(self, e, env):
        x = e
        if x[0] == 'mcall' and x[2] == 'unwrap': x = x[1]
        if x[0] == 'macro' and x[1] in ('write', 'writeln'):
            a = self.macro_args(x[2])
            if a[0][0] != 'path' or a[1][0] != 'str': raise TranslateError('write! shape')
            n = a[0][1][0]
            cur, t = env['vars'][n]
            return n, f'({cur}.app {self.str_lit(a[1][1], a[2:], env)})'
        if x[0] == 'mcall' and x[2] == 'insert_str' and x[1][0] == 'path' and len(x[1][1]) == 1 and x[1][1][0] in env['vars'] \
                and self.literal_value(x[3][0], env) == 0:
            n = x[1][1][0]
            cur, t = env['vars'][n]
            sx, ts = self.ex(x[3][1], env)
            if ts not in ('string', 'strings'): raise TranslateError('insert_str of non-string')
            return n, f'({sx}.app {cur})'
        if x[0] == 'mcall' and x[2] in ('push_str', 'push') and x[1][0] == 'path' and len(x[1][1]) == 1 and x[1][1][0] in env['vars']:
            n = x[1][1][0]
            cur, t = env['vars'][n]
            if t not in ('string', 'strings'): return None
            s, ts = self.ex(x[3][0], env)
            if ts not in ('string', 'strings'): raise TranslateError('push of non-string')
            return n, f'({cur}.app {s})'
        return None

    def assign(self, tgt, e, rest, env, expect):
        if tgt[0] == 'path' and len(tgt[1]) == 1:
            n = tgt[1][0]
            cur, t = env['vars'][n]
            s, _ = self.ex(e, env, t if isinstance(t, str) else None)
            env2 = self.fork(env); v = self.fresh(n, env2); env2['vars'][n] = (v, t)
            env2['consts'].pop(n, None)
            r, rt = self.stmts(rest, env2, expect) if rest else (self.unit_result(env2), 'unit')
            return f'(let {v} := {s}; {r})', rt
        chain, base = [], tgt
        while base[0] in ('field', 'tfield'):
            chain.append(base[2] if base[0] == 'field' else str(base[2])); base = base[1]
        if chain and base[0] == 'path' and len(base[1]) == 1:
            chain.reverse()
            n = base[1][0]
            cur, t = env['vars'][n]
            ft = t
            for f in chain:
                sn = env['owner'] if ft[1] == 'Self' else ft[1]
                ft = dict(self.it.structs[sn])[f]
            s, _ = self.ex(e, env, ft if isinstance(ft, str) else None)
            env2 = self.fork(env); v = self.fresh(n, env2); env2['vars'][n] = (v, t)
            r, rt = self.stmts(rest, env2, expect) if rest else (self.unit_result(env2), 'unit')
            return f'(let {v} := {{ {cur} with {".".join(self.fld(f) for f in chain)} := {s} }}; {r})', rt
        raise TranslateError('assignment target')

    def unit_result(self, env):
        return '()'

    def list_place(self, x, env):
        try:
            _, t = self.ex(x, env)
        except TranslateError:
            return False
        return isinstance(t, tuple) and t[0] == 'vec' and t[1] in INT_TYPES

    def is_none_field(self, x, env):
        """`self.f` (through as_ref / as_mut / & / &mut) for a field the spec declares to be `None` (spec flag `none_fields`:
           the translation is a specialisation to the configurations in which that optional component is absent)"""
        while x[0] in ('paren', 'ref', 'deref') or (x[0] == 'mcall' and x[2] in ('as_ref', 'as_mut') and not x[3]): x = x[1]
        if x[0] != 'field' or x[1][0] != 'path' or x[1][1] != ['self']: return False
        return x[2] in FLAGS.get('none_fields', {}).get(env['owner'], [])

    def static_false(self, c, env):
        """conditions that are false because a `none_fields` field is `None`"""
        if c[0] == 'paren': return self.static_false(c[1], env)
        if c[0] == 'iflet':
            pat = c[1]
            return pat[0] == 'pctor' and pat[1] == ['Some'] and self.is_none_field(c[2], env)
        if c[0] == 'mcall' and c[2] in ('is_some', 'is_some_and') and self.is_none_field(c[1], env): return True
        if c[0] == 'bin' and c[1] == '&&': return self.static_false(c[2], env) or self.static_false(c[3], env)
        return False

    def if_stmt(self, e, rest, env, expect, is_tail):
        cond, then, els = e[1], e[2], e[3]
        if self.static_false(cond, env):
            # dead branch under the `none_fields` specialisation: only the `else` part remains
            return self.stmts(list(els or []) + list(rest), env, expect)
        c, env_then = self.cond(cond, env)
        va, ra = self.assigned(then, env_then)
        vb, rb = self.assigned(els, env) if els else ([], False)
        if not rest:
            # value position
            a, ta = self.stmts(then, self.fork(env_then), expect)
            if els is None:
                b, tb = '()', 'unit'
            else:
                b, tb = self.stmts(els, self.fork(env), expect)
            return f'(if {c} then {a} else {b})', (ta if ta not in ('lit',) else tb)
        if ra or rb:
            # a branch returns: the continuation is appended to the branches (a branch that ends in `return` ignores it)
            a, ta = self.stmts(self.with_rest(then, rest), self.fork(env_then), expect)
            b, tb = self.stmts(self.with_rest(els or [], rest), self.fork(env), expect)
            return f'(if {c} then {a} else {b})', (ta if ta != 'lit' else tb)
        vs = [v for v in va + [x for x in vb if x not in va] if v in env['vars']]
        if not vs:
            # nothing is assigned and nothing returns: the statement may only be dropped if it has no effect at all
            if not (self.effect_free(then) and self.effect_free(els or [])):
                raise TranslateError('an `if` whose branches have effects the translator cannot thread')
            return self.stmts(rest, env, expect)
        def branch(ss, env0):
            # the values of vs after executing ss
            tail = ('expr', ('tuple_vars', vs), True)
            return self.stmts(list(ss) + [tail], self.fork(env0), None)[0]
        a = branch(then, env_then); b = branch(els or [], env)
        env2 = self.fork(env); names = []
        for v in vs:
            nv = self.fresh(v, env2); env2['vars'][v] = (nv, env['vars'][v][1]); env2['consts'].pop(v, None); names.append(nv)
        r, rt = self.stmts(rest, env2, expect)
        pat = names[0] if len(names) == 1 else '(' + ', '.join(names) + ')'
        return f'(let {pat} := (if {c} then {a} else {b}); {r})', rt

    def effect_free(self, ss):
        for st in ss:
            if st[0] == 'let': continue
            if st[0] == 'expr':
                e = st[1]
                if e[0] == 'macro' and (e[1] in LOGS or e[1].startswith('debug_assert') or e[1].startswith('log') or e[1] in ('println', 'eprintln')): continue
                if e[0] == 'if' and e[1][0] != 'iflet' and self.effect_free(e[2]) and self.effect_free(e[3] or []): continue
                if e[0] in ('path', 'unit', 'lit', 'tfield'): continue
            return False
        return True

    def with_rest(self, ss, rest):
        ss = list(ss)
        if ss and ss[-1][0] == 'expr' and ss[-1][1][0] == 'return':
            return ss
        return ss + list(rest)

    # ---- functions / items
    def function(self, q):
        f = self.it.fns[q]
        owner = f['owner']
        env = dict(vars={}, consts={}, owner=owner, n=0, const_fn=f.get('const', False), fnret=f['ret'])
        params = []
        if f['selfkind']:
            env['vars']['self'] = ('self_', ('struct', owner)); params.append(f'(self_ : {lean_struct(owner)})')
        for pn, pt in f['params']:
            env['vars'][pn] = (pn, pt); params.append(f'({pn} : {self.lean_ty(pt, owner)})')
        ret = f['ret']
        if isinstance(ret, tuple) and ret == ('struct', 'Self'): ret = ('struct', owner)
        body = P(f['toks']).block()
        self.cur_mut = f['selfkind'] == 'mut'
        mp = f.get('mutparams') or []
        if mp and (self.cur_mut or len(mp) > 1): raise TranslateError('more than one mutable receiver/parameter in ' + q)
        if self.cur_mut:
            body = self.thread_self(body)
        if mp:
            body = self.thread_self(body, mp[0], only=(ret == 'unit'))
        s, t = self.stmts(body, env, ret if isinstance(ret, str) else None)
        rty = self.lean_ty(ret, owner)
        if self.cur_mut: rty = f'({rty} × {lean_struct(owner)})'
        if mp:
            pty = self.lean_ty(dict(f['params'])[mp[0]], owner)
            rty = pty if ret == 'unit' else f'({rty} × {pty})'
        return f'def {lean_name(q)} ' + ' '.join(params) + f' : {rty} :=\n  {s}\n'

    def thread_self(self, body, var='self', only=False):
        """`&mut self` / a `&mut` parameter: every exit returns (value, var) — or just var when the function returns ()"""
        TS = 'only_var' if only else 'tuple_self'
        def fix_e(e, tail):
            if e[0] == 'return' and e[1] is not None: return ('return', (TS, e[1], var))
            if e[0] == 'return': return ('return', (TS, ('unit',), var))
            if e[0] == 'if':
                return ('if', e[1], fix_b(e[2], tail), fix_b(e[3], tail) if e[3] else (fix_b([], tail) if tail else None))
            if e[0] == 'block': return ('block', fix_b(e[1], tail))
            if e[0] == 'match' and tail:
                return ('match', e[1], [(p, g, ('block', fix_b(b[1] if b[0] == 'block' else [('expr', b, True)], True))) for p, g, b in e[2]])
            if tail: return (TS, e, var)
            return e
        def fix_b(ss, tail):
            out = []
            for i, st in enumerate(ss):
                last = tail and i == len(ss) - 1
                if st[0] == 'expr':
                    is_value = st[2] or st[1][0] in ('if', 'match', 'block', 'return')
                    out.append(('expr', fix_e(st[1], last and is_value), st[2]))
                else: out.append(st)
            if tail and not (ss and ss[-1][0] == 'expr' and (ss[-1][2] or ss[-1][1][0] in ('if', 'match', 'block', 'return'))):
                out.append(('expr', (TS, ('unit',), var), True))
            return out
        return fix_b(body, True)


def _ex_extra(self, e, env, expect=None):
    if e[0] == 'raw':
        return e[1], e[2]
    if e[0] == 'mutcall' or e[0] == 'raw_expr':
        return _orig_ex(self, e[1], env, expect)
    if e[0] == 'tuple_vars':
        vals = [env['vars'][v][0] for v in e[1]]
        return (vals[0] if len(vals) == 1 else '(' + ', '.join(vals) + ')'), 'opaque'
    if e[0] == 'tuple_self':
        var = e[2] if len(e) > 2 else 'self'
        s, t = self.ex(e[1], env, expect)
        return f'({s}, {env["vars"][var][0]})', ('tuple', [t, env['vars'][var][1]])
    if e[0] == 'only_var':
        return env['vars'][e[2]]
    return None


_orig_ex = Tr.ex
def _ex(self, e, env, expect=None):
    r = _ex_extra(self, e, env, expect)
    if r is not None: return r
    return _orig_ex(self, e, env, expect)
Tr.ex = _ex


def generate(spec, repo):
    TYPE_ALIAS.clear(); TYPE_ALIAS.update(spec.get('type_alias', {}))
    EXTERN.clear()
    OPAQUE.clear(); OPAQUE.update(spec.get('opaque', {}))
    FLAGS.clear(); FLAGS.update(spec.get('flags', {}))
    for ns, names in spec.get('extern', {}).items():
        for n in names: EXTERN[n] = ns
    EXTERN_FNS.clear()
    for ns, names in spec.get('extern_fns', {}).items():
        for n in names: EXTERN_FNS[n] = ns
    items = Items()
    for f in spec['files']:
        path = os.path.join(repo, f)
        if not os.path.exists(path): raise TranslateError('source file missing: ' + f)
        text = open(path).read()
        # `require`: shapes the rewrites below rely on (regex over the comment-free, white-space-free text); a miss is a broken tie
        flat = re.sub(r'\s+', '', re.sub(r'//[^\n]*', '', text))
        for rx in spec.get('require', {}).get(f, []):
            if not re.search(rx, flat): raise TranslateError(f'{f}: required shape not found: {rx[:80]}')
        # `rewrites`: documented, semantics-preserving source-to-source steps done before parsing (each must apply at least once)
        for rx, repl in spec.get('rewrites', {}).get(f, []):
            text, n = re.subn(rx, repl, text)
            if n == 0: raise TranslateError(f'{f}: rewrite does not apply any more: {rx[:80]}')
        items.scan(tokenize(text))
        if f in spec.get('inject', {}):
            items.scan(tokenize(spec['inject'][f]))
    tr = Tr(items, spec['namespace'])
    tr.used_consts = []
    for q in spec.get('consts', []):
        if q not in items.consts: raise TranslateError('constant not found in the source: ' + q)
        tr.used_consts.append(q)
    texts = {}            # qualified name -> Lean definition (functions and constants)
    todo = list(spec['functions'])
    for q in todo:
        if q not in items.fns: raise TranslateError('function not found in the source: ' + q)
    progress = True
    while progress:
        progress = False
        for q in list(todo) + [x for x in tr.wanted_fns if x not in todo]:
            if q in texts: continue
            if items.fns[q]['owner'] in EXTERN or q in EXTERN_FNS:        # defined by another generated file
                texts[q] = None; continue
            texts[q] = tr.function(q); progress = True
        for q in list(tr.used_consts):
            if q in texts: continue
            if '::' in q and q.split('::')[0] in EXTERN:
                texts[q] = None; continue
            ty, e = items.consts[q]
            if e is None: raise TranslateError('constant not translatable: ' + q)
            owner = q.split('::')[0] if '::' in q else None
            env = dict(vars={}, consts={}, owner=owner, n=0)
            sx, t = tr.ex(e, env, ty if isinstance(ty, str) else None)
            texts[q] = f'def {lean_name(q)} : {tr.lean_ty(ty, owner)} := {sx}\n'; progress = True
    texts = {q: t for q, t in texts.items() if t is not None}
    # order: what a definition uses comes first
    names = list(texts)
    deps = {}
    for q in names:
        body = texts[q].split(':=', 1)[1]
        deps[q] = [x for x in names if x != q and re.search(r'(?<![A-Za-z0-9_.])' + re.escape(lean_name(x)) + r"(?![A-Za-z0-9_'.])", body)]
    order, seen = [], set()
    def visit(q, stack=()):
        if q in seen: return
        if q in stack: raise TranslateError('recursive definition ' + q)
        for d in deps[q]: visit(d, stack + (q,))
        seen.add(q); order.append(q)
    for q in names: visit(q)
    # structs / enums used
    used_structs = []
    alltext = '\n'.join(texts.values())
    for sn in list(items.structs) + list(items.enums):
        if sn in EXTERN: continue
        if re.search(r'(?<![A-Za-z0-9_.])' + re.escape(sn) + r'(?![A-Za-z0-9_])', alltext) or sn in spec.get('structs', []):
            used_structs.append(sn)
    # a struct that has another struct as a field comes after it
    def sdeps(sn):
        out = []
        def walk(t):
            if isinstance(t, tuple):
                if t[0] == 'struct': out.append(t[1])
                elif t[0] in ('option', 'vec', 'slice', 'range'): walk(t[1])
                elif t[0] == 'tuple':
                    for x in t[1]: walk(x)
                elif t[0] == 'result': walk(t[1]); walk(t[2])
        fs = items.structs.get(sn, [])
        if sn in FLAGS.get('struct_fields', {}): fs = [(f, ft) for f, ft in fs if f in FLAGS['struct_fields'][sn]]
        for _, ft in fs: walk(ft)
        return out
    changed = True
    while changed:
        changed = False
        for sn in list(used_structs):
            for d in sdeps(sn):
                if (d in items.structs or d in items.enums) and d not in EXTERN:
                    if d not in used_structs: used_structs.append(d); changed = True
    sorder, sseen = [], set()
    def svisit(sn):
        if sn in sseen: return
        sseen.add(sn)
        for d in sdeps(sn):
            if d in used_structs: svisit(d)
        sorder.append(sn)
    for sn in used_structs: svisit(sn)
    L = []
    L.append('/- GENERATED on every run by tools/rs2lean.py from the Rust sources listed below — do not edit.')
    for f in spec['files']: L.append('   ' + f)
    L.append('-/')
    L.append('import FastPasta.Spec.RsPrelude')
    for m in spec.get('imports', []): L.append('import ' + m)
    L.append('set_option linter.unusedVariables false')
    L.append('namespace FastPasta')
    L.append('namespace ' + spec['namespace'])
    for sn in sorder:
        if sn in items.enums:
            L.append(f'inductive {sn} where')
            for vn, payload in items.enums[sn]:
                if payload == ['struct-like']: raise TranslateError('enum with a struct-like variant: ' + sn)
                L.append(f'  | {vn}' + ''.join(f' (a{i} : {tr.lean_ty(pt)})' for i, pt in enumerate(payload or [])))
            L.append('  deriving DecidableEq, Repr, Inhabited')
        else:
            fs = items.structs[sn]
            if sn in FLAGS.get('struct_fields', {}):
                fs = [(f, ft) for f, ft in fs if f in FLAGS['struct_fields'][sn]]
            if not fs:
                L.append(f'structure {sn} where\n  deriving DecidableEq, Repr, Inhabited')
            else:
                L.append(f'structure {sn} where')
                for f, ft in fs:
                    L.append(f'  {tr.fld(f)} : {tr.lean_ty(ft, sn)}')
                L.append('  deriving DecidableEq, Repr, Inhabited')
    if OPAQUE:
        L.append(f"/-- abstract view of the configuration object (a trait object in the source): one field per method chain the translated code uses -/")
        L.append(f"structure {OPAQUE['type']} where")
        for key, (rty, field) in OPAQUE['chains'].items():
            L.append(f"  {field} : {tr.lean_ty(P(tokenize(rty)).ty())}    -- {key}")
    for line in spec.get('lean_prelude', []): L.append(line)
    for q in order:
        L.append(texts[q])
    L.append('/-! kernel-checked: every literal mask was split into contiguous runs correctly -/')
    L += tr.audits
    L.append('end ' + spec['namespace'])
    L.append('end FastPasta')
    return '\n'.join(L) + '\n'


def main():
    spec = json.load(open(sys.argv[1]))
    repo = os.environ.get('VERIF_REPO', spec.get('repo', '/repo'))
    try:
        text = generate(spec, repo)
    except TranslateError as ex:
        print('rs2lean: cannot translate: ' + str(ex)); sys.exit(2)
    open(sys.argv[2], 'w').write(text)


if __name__ == '__main__':
    main()
