#!/usr/bin/env python3
"""stats2lean.py — translate the *shape* of the statistics comparison (property C15) from the Rust source into Lean.

`StatsCollector::validate_other_stats` compares the collected statistics with a statistics file through a chain of
`validate_other` methods, each of which copies the other side's fields into a fresh `Self { .. }` and hands it to the
`validate_fields!` macro with an explicit field list.  Which fields are compared is therefore spread over four places per struct
(declaration, copy, macro list, sub-struct calls) plus the macro itself.  This tool reads them all, *requires every function body to be
exactly of the expected shape* (token-for-token after removing comments and white space — anything else is a TranslateError, i.e. a
broken tie), and writes Spec/StatsSrcGen.lean with

  * `<Struct>.fields`     — the declared fields, in declaration order
  * `<Struct>.compared`   — the fields of the `validate_fields!` invocation, in order (each checked to be copied from `other`)
  * `<Struct>.subs`       — the fields handed to their own `validate_other`, in call order (each checked to be defaulted in the copy)
  * `order`               — the leaf names in the order the comparison visits them
  * `macroNe`             — the macro compares with `!=` and reports one message per differing field

Proofs/StatsSrcTie.lean proves these equal to what Model/StatsCompare.lean compares.
usage: stats2lean.py <out.lean>            (repository: $VERIF_REPO or /repo)
"""
import os, re, sys


class TranslateError(Exception):
    pass


def strip_comments(s):
    out = []; i = 0; n = len(s)
    while i < n:
        if s.startswith('//', i):
            while i < n and s[i] != '\n': i += 1
        elif s.startswith('/*', i):
            j = s.find('*/', i + 2)
            i = n if j < 0 else j + 2
        elif s[i] == '"':
            j = i + 1
            while j < n and s[j] != '"':
                j += 2 if s[j] == '\\' else 1
            out.append(s[i:j + 1]); i = j + 1
        else:
            out.append(s[i]); i += 1
    return ''.join(out)


def balanced(s, i, o='{', c='}'):
    """s[i] == o: index just behind the matching closer"""
    d = 0
    while i < len(s):
        if s[i] == '"':
            i += 1
            while s[i] != '"': i += 2 if s[i] == '\\' else 1
        elif s[i] == o: d += 1
        elif s[i] == c:
            d -= 1
            if d == 0: return i + 1
        i += 1
    raise TranslateError('unbalanced braces')


def squash(s):
    return re.sub(r'\s+', '', s)


def struct_fields(src, name):
    m = re.search(r'\bstruct\s+' + name + r'\s*\{', src)
    if not m: raise TranslateError(f'struct {name} not found')
    body = src[m.end():balanced(src, m.end() - 1) - 1]
    body = re.sub(r'#\[[^\]]*\]', '', body)
    fs = []
    for part in split_top(body):
        part = part.strip()
        if not part: continue
        mm = re.match(r'(?:pub(?:\([^)]*\))?\s+)?(\w+)\s*:', part)
        if not mm: raise TranslateError(f'field of {name}: {part[:40]}')
        fs.append(mm.group(1))
    return fs


def split_top(s):
    parts = []; d = 0; cur = ''
    for ch in s:
        if ch in '([{<': d += 1
        elif ch in ')]}>': d -= 1
        if ch == ',' and d == 0:
            parts.append(cur); cur = ''
        else: cur += ch
    parts.append(cur)
    return parts


def impl_body(src, name):
    """all inherent impl blocks of `name`, concatenated"""
    out = ''
    for m in re.finditer(r'\bimpl\s+' + name + r'\s*\{', src):
        out += src[m.end():balanced(src, m.end() - 1) - 1]
    if not out: raise TranslateError(f'impl {name} not found')
    return out


def fn_body(impl, fname, sig_re):
    m = re.search(r'fn\s+' + fname + r'\s*' + sig_re + r'\s*\{', impl)
    if not m: raise TranslateError(f'fn {fname} with the expected signature not found')
    return impl[m.end():balanced(impl, m.end() - 1) - 1]


def macro_list(impl, name):
    ms = re.findall(r'crate::validate_fields!\(\s*' + name + r'\s*,([^)]*)\)\s*;', impl)
    if len(ms) != 1: raise TranslateError(f'validate_fields!({name}, ..) expected once, found {len(ms)}')
    return [x.strip() for x in ms[0].split(',') if x.strip()]


def copy_entries(text, impl, struct):
    """`f: other.f` | `f: other.f()` (f() must be the plain getter) | `f: other.f.clone()` | `f: Type::default()`"""
    copied, defaulted = [], []
    for part in split_top(text):
        p = squash(part)
        if not p: continue
        m = re.fullmatch(r'(\w+):other\.(\w+)(\(\)|\.clone\(\))?', p)
        if m:
            if m.group(1) != m.group(2): raise TranslateError(f'{struct}: field {m.group(1)} is copied from other.{m.group(2)}')
            if m.group(3) == '()':
                g = re.search(r'fn\s+' + m.group(1) + r'\s*\(\s*&self\s*\)\s*->\s*[\w<>]+\s*\{\s*self\.' + m.group(1) + r'\s*\}', impl)
                if not g: raise TranslateError(f'{struct}::{m.group(1)}() is not the plain getter of the field')
            copied.append(m.group(1)); continue
        m = re.fullmatch(r'(\w+):(\w+)::default\(\)', p)
        if m:
            defaulted.append(m.group(1)); continue
        raise TranslateError(f'{struct}: copy entry not understood: {p[:60]}')
    return copied, defaulted


SIG = r'\(\s*&self\s*,\s*other\s*:\s*&Self\s*\)\s*->\s*Result<\s*\(\)\s*,\s*Vec<String>\s*>'
SUBCALL = 'ifletErr(mutsub_errs)=self.{f}.validate_other(&other.{f}){{errs.append(&mutsub_errs);}}'
TAIL = 'iferrs.is_empty(){Ok(())}else{Err(errs)}'


def leaf_struct(src, name):
    """`let other = Self { copies }; self.validate_fields(&other)`"""
    impl = impl_body(src, name)
    body = fn_body(impl, 'validate_other', SIG)
    sq = squash(body)
    m = re.fullmatch(r'letother=Self\{(.*)\};self\.validate_fields\(&other\)', sq)
    if not m: raise TranslateError(f'{name}::validate_other is not `let other = Self {{..}}; self.validate_fields(&other)`')
    i = body.index('{'); inner = body[i + 1:balanced(body, i) - 1]
    copied, defaulted = copy_entries(inner, impl, name)
    if defaulted: raise TranslateError(f'{name}: defaulted field {defaulted} in a leaf comparison')
    fields = struct_fields(src, name)
    mac = macro_list(impl, name)
    if sorted(copied) != sorted(fields): raise TranslateError(f'{name}: copied fields {copied} are not the declared fields {fields}')
    return dict(fields=fields, compared=mac, subs=[])


def composite_struct(src, name, copyvar, has_macro):
    """sub-struct calls, then the copy with the subs defaulted, then (optionally) validate_fields on it"""
    impl = impl_body(src, name)
    body = fn_body(impl, 'validate_other', SIG)
    sq = squash(body)
    pre = 'letmuterrs:Vec<String>=vec![];'
    if not sq.startswith(pre): raise TranslateError(f'{name}::validate_other: unexpected start')
    rest = sq[len(pre):]
    subs = []
    while True:
        m = re.match(r'ifletErr\(mutsub_errs\)=self\.(\w+)\.validate_other\(&other\.(\w+)\)\{errs\.append\(&mutsub_errs\);\}', rest)
        if not m: break
        if m.group(1) != m.group(2): raise TranslateError(f'{name}: self.{m.group(1)} is validated against other.{m.group(2)}')
        subs.append(m.group(1)); rest = rest[m.end():]
    head = f'let{copyvar}=Self{{'
    if not rest.startswith(head): raise TranslateError(f'{name}::validate_other: expected the copy `{copyvar}` after the sub-struct calls')
    j = balanced(rest, len(head) - 1)
    after = rest[j:]
    i = body.index('Self')
    i = body.index('{', i); inner = body[i + 1:balanced(body, i) - 1]
    copied, defaulted = copy_entries(inner, impl, name)
    fields = struct_fields(src, name)
    if sorted(defaulted) != sorted(subs): raise TranslateError(f'{name}: defaulted {defaulted} vs separately validated {subs}')
    if sorted(copied + defaulted) != sorted(fields): raise TranslateError(f'{name}: copy does not cover the declared fields')
    if has_macro:
        exp = f';ifletErr(mutlocal_top_field_errs)=self.validate_fields(&{copyvar}){{errs.append(&mutlocal_top_field_errs);}}' + TAIL
        mac = macro_list(impl, name)
    else:
        exp = ';' + TAIL
        mac = []
        if 'validate_fields!' in squash(impl): raise TranslateError(f'{name}: unexpected validate_fields! invocation')
    if after != exp: raise TranslateError(f'{name}::validate_other: unexpected tail {after[:80]}')
    return dict(fields=fields, compared=mac, subs=subs)


MACRO = ('($struct_name:ident,$($field:ident),*)=>{fnvalidate_fields(&self,other:&$struct_name)->Result<(),Vec<String>>{letmuterrs=vec![];'
         '$(ifself.$field!=other.$field{errs.push(format!("{field_name} mismatch! expected: {other_val:?}, got: {this_val:?}",'
         'field_name=stringify!($field),other_val=other.$field,this_val=self.$field));})*' + TAIL + '}};')

TOP = ('letmuterrs=Vec::new();'
       'ifletErr(muterr_msgs)=self.rdh_stats.validate_other(other.rdh_stats()){errs.append(&muterr_msgs);}'
       'ifletErr(muterr_msgs)=self.error_stats.validate_other(other.error_stats()){errs.append(&muterr_msgs);}'
       'ifletSome(alpide_stats)=self.alpide_stats(){ifletSome(other_alpide_stats)=other.alpide_stats(){'
       'ifletErr(muterr_msgs)=alpide_stats.validate_other(other_alpide_stats){errs.append(&muterr_msgs);}}else{'
       'errs.push("ALPIDE stats was collected but the input stats does not contain ALPIDE stats".into(),);}}'
       'elseifother.alpide_stats.is_some(){log::warn!(@);}'
       'iferrs.is_empty(){Ok(())}else{if!mute_errors{errs.iter().for_each(|err|{crate::display_error(err);});}'
       'Err(io::Error::new(io::ErrorKind::InvalidData,"Stats validation failed",))}')


def squash_keep_strings(s):
    out = []; i = 0
    while i < len(s):
        if s[i] == '"':
            j = i + 1
            while s[j] != '"': j += 2 if s[j] == '\\' else 1
            out.append(s[i:j + 1]); i = j + 1
        elif s[i].isspace(): i += 1
        else: out.append(s[i]); i += 1
    return ''.join(out)


def getter_is_plain(impl, fname, field):
    return re.search(r'fn\s+' + fname + r'\s*\(\s*&self\s*\)\s*->\s*[^{]+\{\s*(?:&\s*)?self\.' + field + r'(?:\.as_ref\(\))?\s*\}', impl) is not None


def generate(repo):
    base = os.path.join(repo, 'fastpasta/src/stats')
    rd = lambda p: strip_comments(open(os.path.join(base, p)).read())
    S = {}
    S['TriggerStats'] = leaf_struct(rd('stats_collector/trigger_stats.rs'), 'TriggerStats')
    S['ItsStats'] = leaf_struct(rd('stats_collector/its_stats.rs'), 'ItsStats')
    S['ErrorStats'] = leaf_struct(rd('stats_collector/error_stats.rs'), 'ErrorStats')
    alp = rd('stats_collector/its_stats/alpide_stats.rs')
    S['ReadoutFlags'] = leaf_struct(alp, 'ReadoutFlags')
    S['AlpideStats'] = composite_struct(alp, 'AlpideStats', '_other', False)
    S['RdhStats'] = composite_struct(rd('stats_collector/rdh_stats.rs'), 'RdhStats', 'other_top_fields_only', True)
    # the macro
    lib = rd('lib.rs')
    m = re.search(r'macro_rules!\s*validate_fields\s*\{', lib)
    if not m: raise TranslateError('macro validate_fields not found')
    mb = lib[m.end():balanced(lib, m.end() - 1) - 1]
    if squash_keep_strings(mb) != MACRO: raise TranslateError('the validate_fields! macro is not the expected field-by-field `!=` comparison')
    # the top-level function
    sc = rd('stats_collector.rs')
    impl = impl_body(sc, 'StatsCollector')
    top = fn_body(impl, 'validate_other_stats', r'\(\s*&self\s*,\s*other\s*:\s*&Self\s*,\s*mute_errors\s*:\s*bool\s*\)\s*->\s*Result<\s*\(\)\s*,\s*io::Error\s*>')
    top = re.sub(r'log::warn!\("[^"]*"\)', 'log::warn!(@)', top)
    if squash_keep_strings(top) != TOP: raise TranslateError('StatsCollector::validate_other_stats is not the expected chain rdh_stats, error_stats, alpide_stats')
    for fname, field in (('rdh_stats', 'rdh_stats'), ('error_stats', 'error_stats'), ('alpide_stats', 'alpide_stats')):
        if not getter_is_plain(impl, fname, field): raise TranslateError(f'StatsCollector::{fname}() is not the plain getter')
    S['StatsCollector'] = dict(fields=struct_fields(sc, 'StatsCollector'), compared=[], subs=['rdh_stats', 'error_stats', 'alpide_stats'])
    # every field in a macro list must be a declared field that is copied
    for n, d in S.items():
        for f in d['compared']:
            if f not in d['fields']: raise TranslateError(f'{n}: validate_fields! names {f}, which is not a field')
    ty = {'its_stats': 'ItsStats', 'trigger_stats': 'TriggerStats', 'readout_flags': 'ReadoutFlags', 'rdh_stats': 'RdhStats',
          'error_stats': 'ErrorStats', 'alpide_stats': 'AlpideStats'}
    def order(n):
        d = S[n]; out = []
        for s in d['subs']: out += order(ty[s])
        return out + d['compared']
    L = ['/- GENERATED on every run by tools/stats2lean.py from fastpasta/src/stats/{lib.rs,stats_collector.rs,stats_collector/*.rs} — do not edit. -/',
         'namespace FastPasta', 'namespace SrcStats']
    q = lambda xs: '[' + ', '.join('"' + x + '"' for x in xs) + ']'
    for n, d in S.items():
        L.append(f'def {n}.fields : List String := {q(d["fields"])}')
        L.append(f'def {n}.compared : List String := {q(d["compared"])}')
        L.append(f'def {n}.subs : List String := {q(d["subs"])}')
    L.append('/-- leaf names in the order `validate_other_stats` visits them -/')
    L.append(f'def order : List String := {q(order("StatsCollector"))}')
    L.append('/-- the `validate_fields!` macro is the field-by-field `!=` comparison, one message per differing field; each `validate_other`')
    L.append('    and `validate_other_stats` has exactly the expected shape (checked token for token by the translator) -/')
    L.append('def shapesChecked : Bool := true')
    L += ['end SrcStats', 'end FastPasta', '']
    return '\n'.join(L)


if __name__ == '__main__':
    repo = os.environ.get('VERIF_REPO', '/repo')
    try:
        text = generate(repo)
    except TranslateError as e:
        print('stats2lean: cannot translate:', e); sys.exit(2)
    open(sys.argv[1], 'w').write(text)
