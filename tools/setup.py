#!/usr/bin/env python3
"""setup — build everything the checks need, offline, from files on disk:
the Lean project (all property modules + driver), the release binary of /repo and the harness."""
import os, sys
sys.path.insert(0, os.path.dirname(os.path.abspath(__file__)))
import fplib as L
mods = sorted('FastPasta.Props.' + f[:-5] for f in os.listdir(os.path.join(L.LEAN, 'FastPasta', 'Props')) if f.endswith('.lean'))
ok, log = L.build_lean(mods)
print(log[-2000:])
b, h, blog = L.build_impl()
print(blog[-1500:])
print('lean ok:', ok, 'binary ok:', b, 'harness ok:', h)
sys.exit(0 if (ok and b and h) else 1)
