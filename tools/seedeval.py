#!/usr/bin/env python3
"""seedeval.py <patch.diff> [Cxx ...]  — apply a seeded change to /repo, run the quick checks, undo it.
Not a registered check: used only to measure which checks catch which seeded changes (DESIGN §13).
The Lean side is not rebuilt (VERIF_SKIP_PROOF=1): a seeded change touches /repo only."""
import json, os, subprocess, sys, time
ROOT = os.path.dirname(os.path.dirname(os.path.abspath(__file__)))
REPO = '/repo'
ALL = ['C%02d' % i for i in range(1, 21)]

def main():
    patch = os.path.abspath(sys.argv[1]); props = sys.argv[2:] or ALL
    assert subprocess.run(['git', '-C', REPO, 'status', '--porcelain'], capture_output=True, text=True).stdout.strip() == '', '/repo not clean'
    subprocess.run(['git', '-C', REPO, 'apply', patch], check=True)
    res = {}
    try:
        for p in props:
            t = time.time()
            env = dict(os.environ, VERIF_SKIP_PROOF='1')
            r = subprocess.run([sys.executable, os.path.join(ROOT, 'tools', 'check.py'), p], capture_output=True, text=True, env=env)
            lines = [l for l in r.stdout.splitlines() if l.startswith('VIOLATION') or l.startswith('KNOWN-FINDING')]
            tags = []
            for l in lines:
                if l.startswith('VIOLATION'):
                    f = l.split('replay=')[1].split()[0]
                    try: tags.append(json.load(open(f)).get('tag', '?'))
                    except Exception: tags.append('?')
            res[p] = dict(exit=r.returncode, violations=sum(l.startswith('VIOLATION') for l in lines), tags=sorted(set(tags)), wall=round(time.time() - t, 1))
            print(p, res[p], flush=True)
    finally:
        subprocess.run(['git', '-C', REPO, 'checkout', '--', '.'], check=True)
        subprocess.run(['git', '-C', REPO, 'clean', '-fdq', '--', 'fastpasta/src', 'alice_protocol_reader/src'], check=False)
        # rebuild the binaries from the restored tree so that later `--no-build` runs do not use the seeded build
        sys.path.insert(0, os.path.join(ROOT, 'tools'))
        import fplib as L
        L.build_impl(); L.build_hook()
    print('CAUGHT-BY', [p for p in res if res[p]['exit'] != 0])
    json.dump(res, sys.stdout); print()

if __name__ == '__main__':
    main()
